(* C10 C11 C12 C40 - lemmas about the basic-block model. *)
From Coq Require Import ZArith List Bool Lia.
Require Import V.Lib.Val V.Lib.Result V.Analysis.CfgModel.
Import ListNotations.
Open Scope Z_scope.

Lemma memZ_In : forall x l, memZ x l = true <-> In x l.
Proof.
  intros x l. unfold memZ. rewrite existsb_exists. split.
  - intros [y [Hy E]]. apply Z.eqb_eq in E. subst. exact Hy.
  - intros H. exists x. split; [exact H|apply Z.eqb_refl].
Qed.

(* ---- contiguous instruction sequences ---- *)
Definition code_len (p : list (Z * ins)) : Z := fold_left (fun a q => a + ilen (snd q)) p 0.
Definition contig (s : Z) (p : list (Z * ins)) : Prop := p = with_off s (map snd p).

Lemma fold_len_shift : forall p a, fold_left (fun a q => a + ilen (snd q)) p a = a + code_len p.
Proof.
  unfold code_len. induction p as [|q p IH]; intros a; cbn [fold_left]; [lia|].
  rewrite (IH (a + ilen (snd q))), (IH (0 + ilen (snd q))). lia.
Qed.
Lemma code_len_app : forall p q, code_len (p ++ q) = code_len p + code_len q.
Proof. intros. unfold code_len. rewrite fold_left_app. rewrite fold_len_shift. reflexivity. Qed.
Lemma code_len_cons : forall x p, code_len (x :: p) = ilen (snd x) + code_len p.
Proof. intros. change (x :: p) with ([x] ++ p). rewrite code_len_app. unfold code_len at 1. simpl. lia. Qed.
Lemma b_end_eq : forall b, b_end b = b_start b + code_len (b_ins b).
Proof. intros. reflexivity. Qed.

Lemma with_off_app : forall a b s, with_off s (a ++ b) = with_off s a ++ with_off (s + code_len (with_off s a)) b.
Proof.
  induction a as [|i a IH]; intros b s; simpl.
  - unfold code_len. simpl. f_equal. lia.
  - f_equal. rewrite IH. f_equal. f_equal. rewrite code_len_cons. simpl. lia.
Qed.
Lemma map_snd_with_off : forall l s, map snd (with_off s l) = l.
Proof. induction l as [|i l IH]; intros s; simpl; [reflexivity|]. now rewrite IH. Qed.
Lemma contig_with_off : forall s l, contig s (with_off s l).
Proof. intros. unfold contig. now rewrite map_snd_with_off. Qed.
Lemma contig_cons : forall s x p, contig s (x :: p) -> fst x = s /\ contig (s + ilen (snd x)) p.
Proof. intros s [o i] p H. unfold contig in *. simpl in H. inversion H. split; [reflexivity|]. simpl. congruence. Qed.
Lemma contig_cons_intro : forall s x p, fst x = s -> contig (s + ilen (snd x)) p -> contig s (x :: p).
Proof. intros s [o i] p H1 H2. simpl in *. subst o. unfold contig in *. simpl. f_equal. exact H2. Qed.
Lemma contig_app : forall p s q, contig s (p ++ q) -> contig s p /\ contig (s + code_len p) q.
Proof.
  induction p as [|x p IH]; intros s q H; simpl in H.
  - split; [reflexivity|]. unfold code_len. simpl. replace (s + 0) with s by lia. exact H.
  - apply contig_cons in H. destruct H as [H1 H2]. destruct (IH _ _ H2) as [H3 H4]. split.
    + apply contig_cons_intro; assumption.
    + rewrite code_len_cons. replace (s + (ilen (snd x) + code_len p)) with (s + ilen (snd x) + code_len p) by lia. exact H4.
Qed.
Lemma contig_app_intro : forall p s q, contig s p -> contig (s + code_len p) q -> contig s (p ++ q).
Proof.
  induction p as [|x p IH]; intros s q H1 H2; simpl.
  - unfold code_len in H2. simpl in H2. replace (s + 0) with s in H2 by lia. exact H2.
  - apply contig_cons in H1. destruct H1 as [Ha Hb]. apply contig_cons_intro; [exact Ha|]. apply IH; [exact Hb|].
    rewrite code_len_cons in H2. replace (s + ilen (snd x) + code_len p) with (s + (ilen (snd x) + code_len p)) by lia. exact H2.
Qed.

(* ---- the blocks form a chain of contiguous, non-empty segments ---- *)
Fixpoint chain (s : Z) (bs : list block) (e : Z) : Prop :=
  match bs with
  | [] => s = e
  | b :: r => b_start b = s /\ b_ins b <> [] /\ contig s (b_ins b) /\ chain (b_end b) r e
  end.
Lemma chain_app : forall a s b e, chain s (a ++ b) e <-> exists m, chain s a m /\ chain m b e.
Proof.
  induction a as [|x a IH]; intros s b e; simpl.
  - split; [intros H; exists s; split; [reflexivity|exact H]|intros [m [-> H]]; exact H].
  - rewrite IH. split.
    + intros [H1 [H2 [H3 [m [H4 H5]]]]]. exists m. tauto.
    + intros [m [[H1 [H2 [H3 H4]]] H5]]. repeat split; try assumption. exists m. tauto.
Qed.
Lemma chain_snoc : forall s bs b e, chain s bs (b_start b) -> b_ins b <> [] -> contig (b_start b) (b_ins b) -> e = b_end b ->
  chain s (bs ++ [b]) e.
Proof. intros s bs b e H1 H2 H3 ->. apply chain_app. exists (b_start b). split; [exact H1|]. simpl. tauto. Qed.

Lemma rev_cons_app : forall {A} (x : A) l r, rev (x :: l) ++ r = rev l ++ x :: r.
Proof. intros. simpl. rewrite <- app_assoc. reflexivity. Qed.

Lemma build_chain : forall l hk code cs cur done s0,
  contig cs (rev cur ++ code) -> chain s0 (rev done) cs ->
  chain s0 (build l hk code cs cur done) (cs + code_len (rev cur ++ code)) /\
  concat (map b_ins (build l hk code cs cur done)) = concat (map b_ins (rev done)) ++ rev cur ++ code.
Proof.
  intros l hk. induction code as [|[idx i] rest IH]; intros cs cur done s0 Hc Hd.
  - cbn [build]. rewrite app_nil_r in *. destruct cur as [|q cur].
    + simpl. unfold code_len. simpl. replace (cs + 0) with cs by lia. split; [exact Hd|now rewrite app_nil_r].
    + cbn [rev]. split.
      * apply chain_snoc; cbn [b_start b_ins]; try assumption; [|reflexivity].
        intro E. apply app_eq_nil in E. destruct E; discriminate.
      * rewrite map_app, concat_app. cbn. rewrite app_nil_r. reflexivity.
  - cbn [build].
    (* where the instruction sits *)
    pose proof (contig_app _ _ _ Hc) as [Hc1 Hc2]. pose proof (contig_cons _ _ _ Hc2) as [Hidx Hrest]. cbn [fst snd] in Hidx, Hrest.
    destruct (memZ idx l && negb match cur with [] => true | _ :: _ => false end) eqn:E1.
    + (* a leader: the current block is closed, a new one starts at idx *)
      assert (Hne : cur <> []) by (destruct cur; [rewrite andb_false_r in E1; discriminate|discriminate]).
      assert (Hd' : chain s0 (rev ({| b_start := cs; b_ins := rev cur |} :: done)) idx).
      { cbn [rev]. apply chain_snoc; cbn [b_start b_ins]; try assumption.
        intro E. apply (f_equal (@rev _)) in E. rewrite rev_involutive in E. contradiction. }
      assert (Hc' : contig idx (rev [(idx, i)] ++ rest)) by (cbn; apply contig_cons_intro; [reflexivity|rewrite Hidx; exact Hrest]).
      assert (Hlen : cs + code_len (rev cur ++ (idx, i) :: rest) = idx + code_len (rev [(idx, i)] ++ rest))
        by (rewrite code_len_app; cbn [rev app]; lia).
      destruct (memZ idx hk) eqn:E2.
      * destruct (IH (idx + ilen i) [] ({| b_start := idx; b_ins := rev [(idx, i)] |} :: {| b_start := cs; b_ins := rev cur |} :: done) s0) as [H1 H2].
        { cbn [rev app]. rewrite Hidx. exact Hrest. }
        { cbn [rev]. apply chain_snoc; cbn [b_start b_ins]; [exact Hd'|discriminate|cbn; apply contig_cons_intro; [reflexivity|reflexivity]|].
          rewrite b_end_eq. cbn. unfold code_len. simpl. lia. }
        split.
        -- rewrite Hlen. cbn [rev app] in *. rewrite code_len_cons. cbn [snd]. replace (idx + (ilen i + code_len rest)) with (idx + ilen i + code_len rest) by lia. exact H1.
        -- rewrite H2. cbn [rev map]. rewrite !map_app, !concat_app. cbn. rewrite !app_nil_r, <- !app_assoc. reflexivity.
      * destruct (IH idx [(idx, i)] ({| b_start := cs; b_ins := rev cur |} :: done) s0 Hc' Hd') as [H1 H2]. split.
        -- rewrite Hlen. exact H1.
        -- rewrite H2. cbn [rev map]. rewrite !map_app, !concat_app. cbn. rewrite !app_nil_r, <- !app_assoc. reflexivity.
    + (* the instruction joins the current block *)
      assert (Hc' : contig cs (rev ((idx, i) :: cur) ++ rest)) by (rewrite rev_cons_app; exact Hc).
      assert (Hlen : cs + code_len (rev cur ++ (idx, i) :: rest) = cs + code_len (rev ((idx, i) :: cur) ++ rest))
        by (rewrite rev_cons_app; reflexivity).
      destruct (memZ idx hk) eqn:E2.
      * pose proof (contig_app _ _ _ Hc') as [Hb1 Hb2].
        destruct (IH (idx + ilen i) [] ({| b_start := cs; b_ins := rev ((idx, i) :: cur) |} :: done) s0) as [H1 H2].
        { cbn [rev app]. replace (idx + ilen i) with (cs + code_len (rev ((idx, i) :: cur))); [exact Hb2|].
          cbn [rev]. rewrite code_len_app, code_len_cons. unfold code_len at 2. cbn. lia. }
        { cbn [rev]. apply chain_snoc; cbn [b_start b_ins]; [exact Hd| |exact Hb1|].
          - cbn [rev]. intro E. apply app_eq_nil in E. destruct E; discriminate.
          - rewrite b_end_eq. cbn [b_start b_ins rev]. rewrite code_len_app, code_len_cons. unfold code_len at 2. cbn. lia. }
        split.
        -- rewrite Hlen. cbn [rev app] in *. rewrite code_len_app in *. rewrite code_len_app, code_len_cons. unfold code_len at 2. cbn [fold_left snd].
           replace (cs + (code_len (rev cur) + (ilen i + 0) + code_len rest)) with (idx + ilen i + code_len rest) by lia. exact H1.
        -- rewrite H2. cbn [rev map]. rewrite !map_app, !concat_app. cbn. rewrite !app_nil_r, <- !app_assoc. reflexivity.
      * destruct (IH cs ((idx, i) :: cur) done s0 Hc' Hd) as [H1 H2]. split.
        -- rewrite Hlen. exact H1.
        -- rewrite H2. rewrite rev_cons_app. reflexivity.
Qed.

Theorem blocks_partition : forall insl excs,
  let code := with_off 0 insl in
  chain 0 (blocks_of code excs) (code_len code) /\ concat (map b_ins (blocks_of code excs)) = code.
Proof.
  intros insl excs code. unfold blocks_of.
  destruct (build_chain (leaders code excs) (map fst (branch_map code)) code 0 [] [] 0) as [H1 H2].
  - cbn. apply contig_with_off.
  - cbn. reflexivity.
  - split; [cbn in H1; exact H1|cbn in H2; exact H2].
Qed.

(* ---- only the last instruction of a block can be a key of the branch map ---- *)
Definition branch_last (hk : list Z) (b : block) : Prop := forall q, In q (removelast (b_ins b)) -> memZ (fst q) hk = false.

Lemma removelast_incl : forall {A} (l : list A) x, In x (removelast l) -> In x l.
Proof. induction l as [|a l IH]; intros x H; [destruct H|]. destruct l; [destruct H|]. destruct H as [<-|H]; [left; reflexivity|right; apply IH, H]. Qed.
Lemma removelast_snoc : forall {A} (l : list A) x, removelast (l ++ [x]) = l.
Proof. intros. apply removelast_last. Qed.

Lemma build_branch_last : forall l hk code cs cur done,
  Forall (fun q => memZ (fst q) hk = false) cur -> Forall (branch_last hk) done ->
  Forall (branch_last hk) (build l hk code cs cur done).
Proof.
  intros l hk. induction code as [|[idx i] rest IH]; intros cs cur done Hcur Hdone.
  - cbn [build]. apply Forall_rev. destruct cur; [exact Hdone|]. constructor; [|exact Hdone].
    intros q Hq. apply removelast_incl in Hq. cbn [b_ins] in Hq. apply in_rev in Hq. rewrite Forall_forall in Hcur. apply Hcur, Hq.
  - cbn [build].
    assert (Hclose : forall c, Forall (fun q => memZ (fst q) hk = false) c -> forall s, branch_last hk {| b_start := s; b_ins := rev c |}).
    { intros c Hc s q Hq. apply removelast_incl in Hq. cbn [b_ins] in Hq. apply in_rev in Hq. rewrite Forall_forall in Hc. apply Hc, Hq. }
    destruct (memZ idx l && negb match cur with [] => true | _ :: _ => false end).
    + destruct (memZ idx hk) eqn:E2.
      * apply IH; [constructor|]. constructor; [|constructor; [apply Hclose, Hcur|exact Hdone]].
        intros q Hq. cbn in Hq. destruct Hq.
      * apply IH; [constructor; [exact E2|constructor]|]. constructor; [apply Hclose, Hcur|exact Hdone].
    + destruct (memZ idx hk) eqn:E2.
      * apply IH; [constructor|]. constructor; [|exact Hdone].
        intros q Hq. cbn [b_ins rev] in Hq. rewrite removelast_snoc in Hq. apply in_rev in Hq. rewrite Forall_forall in Hcur. apply Hcur, Hq.
      * apply IH; [constructor; assumption|exact Hdone].
Qed.

Theorem blocks_branch_last : forall code excs b q, In b (blocks_of code excs) -> In q (removelast (b_ins b)) ->
  is_branch (ikind (snd q)) = true -> In q code -> False.
Proof.
  intros code excs b q Hb Hq Hbr Hin. unfold blocks_of in Hb.
  pose proof (build_branch_last (leaders code excs) (map fst (branch_map code)) code 0 [] [] (Forall_nil _) (Forall_nil _)) as H.
  rewrite Forall_forall in H. specialize (H b Hb q Hq).
  assert (memZ (fst q) (map fst (branch_map code)) = true); [|congruence].
  apply memZ_In. apply in_map_iff. exists (fst q, determine_next code (fst q) (snd q)). split; [reflexivity|].
  unfold branch_map. apply in_flat_map. exists q. split; [exact Hin|]. rewrite Hbr. left. reflexivity.
Qed.

(* ---- every leader that is an instruction offset begins a block ---- *)
Definition heads (bs : list block) : list (option (Z * ins)) := map (fun b => hd_error (b_ins b)) bs.
Lemma heads_app : forall a b, heads (a ++ b) = heads a ++ heads b.
Proof. intros. unfold heads. apply map_app. Qed.
Lemma hd_rev_last : forall (c : list (Z * ins)) d, c <> [] -> hd_error (rev c) = Some (last c d).
Proof.
  intros c d Hc. destruct (exists_last Hc) as [c' [x ->]]. rewrite rev_app_distr, last_last. reflexivity.
Qed.

Lemma build_heads : forall l hk code cs cur done q d,
  In (Some q) (heads (rev done)) \/ (cur <> [] /\ last cur d = q) \/ (In q code /\ memZ (fst q) l = true) ->
  In (Some q) (heads (build l hk code cs cur done)).
Proof.
  intros l hk. induction code as [|[idx i] rest IH]; intros cs cur done q d H.
  - cbn [build]. destruct H as [H|[[Hne Hl]|[[] _]]].
    + destruct cur; [exact H|]. cbn [rev]. rewrite heads_app. apply in_or_app. left. exact H.
    + destruct cur as [|x cur]; [congruence|].
      change (rev ({| b_start := cs; b_ins := rev (x :: cur) |} :: done))
        with (rev done ++ [{| b_start := cs; b_ins := rev (x :: cur) |}]).
      rewrite heads_app. apply in_or_app. right. left.
      cbn [b_ins]. rewrite (hd_rev_last (x :: cur) d) by discriminate. now rewrite Hl.
  - cbn [build].
    assert (Hpush : forall c s dn, c <> [] -> last c d = q ->
              In (Some q) (heads (rev ({| b_start := s; b_ins := rev c |} :: dn)))).
    { intros c s dn Hc Hl. cbn [rev]. rewrite heads_app. apply in_or_app. right. left. cbn [b_ins].
      rewrite (hd_rev_last c d Hc). now rewrite Hl. }
    assert (Hkeep : forall b dn, In (Some q) (heads (rev dn)) -> In (Some q) (heads (rev (b :: dn)))).
    { intros b dn Hd. cbn [rev]. rewrite heads_app. apply in_or_app. left. exact Hd. }
    destruct (memZ idx l && negb match cur with [] => true | _ :: _ => false end) eqn:E1.
    + assert (Hne : cur <> []) by (destruct cur; [rewrite andb_false_r in E1; discriminate|discriminate]).
      destruct (memZ idx hk).
      * apply (IH _ _ _ q d). destruct H as [H|[[_ Hl]|[[Hq|Hq] Hm]]].
        -- left. apply Hkeep, Hkeep, H.
        -- left. apply Hkeep. apply Hpush; assumption.
        -- left. subst q. apply (Hpush [(idx, i)]); [discriminate|reflexivity].
        -- right; right. split; assumption.
      * apply (IH _ _ _ q d). destruct H as [H|[[_ Hl]|[[Hq|Hq] Hm]]].
        -- left. apply Hkeep, H.
        -- left. apply Hpush; assumption.
        -- right; left. split; [discriminate|]. subst q. reflexivity.
        -- right; right. split; assumption.
    + destruct (memZ idx hk).
      * apply (IH _ _ _ q d). destruct H as [H|[[Hne Hl]|[[Hq|Hq] Hm]]].
        -- left. apply Hkeep, H.
        -- left. apply Hpush; [discriminate|]. destruct cur; [congruence|exact Hl].
        -- left. subst q. cbn [fst] in Hm. rewrite Hm in E1. cbn [andb] in E1. destruct cur as [|y cur]; [|discriminate].
           apply (Hpush [(idx, i)]); [discriminate|reflexivity].
        -- right; right. split; assumption.
      * apply (IH _ _ _ q d). destruct H as [H|[[Hne Hl]|[[Hq|Hq] Hm]]].
        -- left. exact H.
        -- right; left. split; [discriminate|]. destruct cur; [congruence|exact Hl].
        -- right; left. split; [discriminate|]. subst q. cbn [fst] in Hm. rewrite Hm in E1. cbn [andb] in E1.
           destruct cur as [|y cur]; [reflexivity|discriminate].
        -- right; right. split; assumption.
Qed.

Theorem leaders_begin_blocks : forall insl excs q,
  let code := with_off 0 insl in
  In q code -> In (fst q) (leaders code excs) ->
  exists b, In b (blocks_of code excs) /\ b_start b = fst q /\ hd_error (b_ins b) = Some q.
Proof.
  intros insl excs q code Hq Hl.
  assert (H : In (Some q) (heads (blocks_of code excs))).
  { unfold blocks_of. apply (build_heads _ _ _ _ _ _ q q). right; right. split; [exact Hq|apply memZ_In, Hl]. }
  unfold heads in H. apply in_map_iff in H. destruct H as [b [Hh Hb]]. exists b. split; [exact Hb|]. split; [|exact Hh].
  (* the start of a block is the offset of its first instruction *)
  destruct (blocks_partition insl excs) as [Hch _]. fold code in Hch.
  assert (G : forall s bs e, chain s bs e -> forall b0, In b0 bs -> contig (b_start b0) (b_ins b0)).
  { intros s bs. revert s. induction bs as [|x bs IHb]; intros s e Hc b0 Hin; [destruct Hin|].
    simpl in Hc. destruct Hc as [H1 [H2 [H3 H4]]]. destruct Hin as [<-|Hin]; [rewrite H1; exact H3|eapply IHb; eassumption]. }
  specialize (G _ _ _ Hch b Hb). destruct (b_ins b) as [|x r]; [discriminate|]. inversion Hh; subst x.
  apply contig_cons in G. symmetry. apply G.
Qed.

(* ---- looking blocks up by address ---- *)
Definition big (bs : list block) : Prop := forall b, In b bs -> 2 <= code_len (b_ins b).

Lemma chain_bounds : forall bs s e, chain s bs e -> big bs -> s <= e /\ forall b, In b bs -> s <= b_start b /\ b_end b <= e.
Proof.
  induction bs as [|x bs IH]; intros s e Hc Hb; simpl in Hc.
  - subst. split; [lia|intros b []].
  - destruct Hc as [H1 [H2 [H3 H4]]]. assert (Hb' : big bs) by (intros b Hin; apply Hb; right; exact Hin).
    destruct (IH _ _ H4 Hb') as [G1 G2]. pose proof (Hb x (or_introl eq_refl)) as Hx. rewrite b_end_eq in *.
    split; [lia|]. intros b [<-|Hin]; [rewrite b_end_eq; lia|]. destruct (G2 b Hin). lia.
Qed.

Lemma lookup_hit : forall bs s e c v, chain s bs e -> big bs -> In c bs -> b_start c <= v < b_end c ->
  get_basic_block bs v = Some c.
Proof.
  induction bs as [|x bs IH]; intros s e c v Hc Hb Hin Hv; [destruct Hin|]. simpl in Hc. destruct Hc as [H1 [H2 [H3 H4]]].
  assert (Hb' : big bs) by (intros b Hi; apply Hb; right; exact Hi).
  unfold get_basic_block. cbn [find]. destruct Hin as [<-|Hin].
  - replace ((b_start x <=? v) && (v <? b_end x)) with true; [reflexivity|].
    symmetry. apply andb_true_iff. split; [apply Z.leb_le|apply Z.ltb_lt]; lia.
  - destruct (chain_bounds _ _ _ H4 Hb') as [_ G]. destruct (G c Hin) as [G1 G2].
    replace ((b_start x <=? v) && (v <? b_end x)) with false; [apply (IH _ _ c v H4 Hb' Hin Hv)|].
    symmetry. apply andb_false_iff. right. apply Z.ltb_ge. lia.
Qed.
Lemma lookup_inv : forall bs v c, get_basic_block bs v = Some c -> In c bs /\ b_start c <= v < b_end c.
Proof.
  intros bs v c H. unfold get_basic_block in H. apply find_some in H. destruct H as [H1 H2].
  apply andb_true_iff in H2. destruct H2 as [H2 H3]. apply Z.leb_le in H2. apply Z.ltb_lt in H3. tauto.
Qed.
Lemma lookup_miss : forall bs s e v, chain s bs e -> big bs -> (v < s \/ e <= v) -> get_basic_block bs v = None.
Proof.
  intros bs s e v Hc Hb Hv. destruct (get_basic_block bs v) as [c|] eqn:E; [|reflexivity].
  apply lookup_inv in E. destruct E as [Hin Hr]. destruct (chain_bounds _ _ _ Hc Hb) as [_ G]. destruct (G c Hin). lia.
Qed.

(* instructions are at least one code unit long *)
Definition sized (insl : list ins) : Prop := Forall (fun i => 2 <= ilen i) insl.
Lemma code_len_ge : forall p, Forall (fun q => 2 <= ilen (snd q)) p -> p <> [] -> 2 <= code_len p.
Proof.
  intros p H Hne. destruct p as [|x p]; [congruence|]. rewrite code_len_cons. inversion H; subst.
  assert (0 <= code_len p); [|lia]. clear - H3. induction H3 as [|y p Hy Hp IH]; [unfold code_len; simpl; lia|rewrite code_len_cons; lia].
Qed.
Lemma blocks_big : forall insl excs, sized insl -> big (blocks_of (with_off 0 insl) excs).
Proof.
  intros insl excs Hs b Hb. destruct (blocks_partition insl excs) as [Hch Hcc].
  assert (Hall : Forall (fun q => 2 <= ilen (snd q)) (with_off 0 insl)).
  { clear - Hs. generalize 0. induction Hs as [|i l Hi Hl IH]; intros s; simpl; constructor; [exact Hi|apply IH]. }
  apply code_len_ge.
  - rewrite <- Hcc in Hall. rewrite Forall_forall in *. intros q Hq. apply Hall. apply in_concat. exists (b_ins b). split; [apply in_map, Hb|exact Hq].
  - assert (G : forall s bs e, chain s bs e -> forall b0, In b0 bs -> b_ins b0 <> []).
    { intros s bs. revert s. induction bs as [|x bs IHb]; intros s e Hc b0 Hin; [destruct Hin|].
      simpl in Hc. destruct Hc as [H1 [H2 [H3 H4]]]. destruct Hin as [<-|Hin]; [exact H2|eapply IHb; eassumption]. }
    eapply G; eassumption.
Qed.

(* ---- C12: which try range a block reports ---- *)
Definition wf_excs (code : list (Z * ins)) (excs : list exc) : Prop :=
  (forall e, In e excs -> In (e_start e) (map fst code)) /\
  (forall e1 e2, In e1 excs -> In e2 excs -> e1 = e2 \/ e_end e1 < e_start e2 \/ e_end e2 < e_start e1).

Lemma try_start_not_inside : forall insl excs e b,
  let code := with_off 0 insl in
  sized insl -> In e excs -> In (e_start e) (map fst code) -> In b (blocks_of code excs) ->
  b_start b <= e_start e < b_end b -> e_start e = b_start b.
Proof.
  intros insl excs e b code Hs He Hoff Hb Hr.
  apply in_map_iff in Hoff. destruct Hoff as [q [Hq1 Hq2]].
  destruct (leaders_begin_blocks insl excs q Hq2) as [c [Hc1 [Hc2 _]]].
  - fold code. unfold leaders. apply in_or_app. right. apply in_flat_map. exists e. split; [exact He|]. left. now rewrite Hq1.
  - destruct (blocks_partition insl excs) as [Hch _]. pose proof (blocks_big insl excs Hs) as Hbig. fold code in Hch, Hbig, Hc1.
    assert (L1 : get_basic_block (blocks_of code excs) (e_start e) = Some b) by (eapply lookup_hit; eassumption).
    assert (L2 : get_basic_block (blocks_of code excs) (e_start e) = Some c).
    { eapply lookup_hit; try eassumption. rewrite Hc2, Hq1. pose proof (Hbig c Hc1). rewrite b_end_eq. lia. }
    rewrite L1 in L2. inversion L2; subst c. rewrite Hc2. symmetry. exact Hq1.
Qed.

Theorem block_exception_exact : forall insl excs b e,
  let code := with_off 0 insl in
  sized insl -> wf_excs code excs -> In b (blocks_of code excs) ->
  (block_exception excs b = Some e <-> In e excs /\ e_start e <= b_start b <= e_end e).
Proof.
  intros insl excs b e code Hs [Hw1 Hw2] Hb.
  pose proof (blocks_big insl excs Hs b Hb) as Hlen.
  assert (Hfwd : forall e0, In e0 excs -> e_start e0 <= b_end b - 1 -> b_start b <= e_end e0 -> e_start e0 <= b_start b).
  { intros e0 H0 H1 H2. destruct (Z_lt_dec (b_start b) (e_start e0)) as [Hlt|]; [|lia].
    pose proof (try_start_not_inside insl excs e0 b Hs H0 (Hw1 e0 H0) Hb). fold code in H. lia. }
  split.
  - intros H. unfold block_exception in H. apply find_some in H. destruct H as [H1 H2].
    apply andb_true_iff in H2. destruct H2 as [H2 H3]. apply Z.leb_le in H2, H3.
    split; [exact H1|]. split; [apply Hfwd; assumption|exact H3].
  - intros [H1 [H2 H3]]. unfold block_exception.
    destruct (find (fun e0 => (e_start e0 <=? b_end b - 1) && (b_start b <=? e_end e0)) excs) as [e'|] eqn:E.
    + apply find_some in E. destruct E as [G1 G2]. apply andb_true_iff in G2. destruct G2 as [G2 G3]. apply Z.leb_le in G2, G3.
      pose proof (Hfwd e' G1 G2 G3). destruct (Hw2 e e' H1 G1) as [->|[Hd|Hd]]; [reflexivity|lia|lia].
    + exfalso. eapply find_none in E; [|exact H1]. apply andb_false_iff in E. rewrite b_end_eq in E.
      destruct E as [E|E]; [apply Z.leb_gt in E|apply Z.leb_gt in E]; lia.
Qed.

Lemma contig_in_range : forall p s q, contig s p -> Forall (fun x => 2 <= ilen (snd x)) p -> In q p ->
  s <= fst q /\ fst q + ilen (snd q) <= s + code_len p.
Proof.
  induction p as [|x p IH]; intros s q Hc Hf Hin; [destruct Hin|]. apply contig_cons in Hc. destruct Hc as [H1 H2].
  inversion Hf as [|? ? Hx Hp]; subst. rewrite code_len_cons.
  assert (0 <= code_len p).
  { clear - Hp. induction Hp as [|y p Hy Hp IH]; [unfold code_len; simpl; lia|rewrite code_len_cons; lia]. }
  destruct Hin as [<-|Hin]; [lia|]. destruct (IH _ _ H2 Hp Hin). lia.
Qed.

Lemma block_instruction_range : forall insl excs b q, sized insl -> In b (blocks_of (with_off 0 insl) excs) -> In q (b_ins b) ->
  b_start b <= fst q /\ fst q + ilen (snd q) <= b_end b /\ In q (with_off 0 insl).
Proof.
  intros insl excs b q Hs Hb Hq. destruct (blocks_partition insl excs) as [Hch Hcc].
  assert (Hin : In q (with_off 0 insl)).
  { rewrite <- Hcc. apply in_concat. exists (b_ins b). split; [apply in_map, Hb|exact Hq]. }
  assert (Hall : Forall (fun x => 2 <= ilen (snd x)) (with_off 0 insl)).
  { clear - Hs. generalize 0. induction Hs as [|i l Hi Hl IH]; intros s; simpl; constructor; [exact Hi|apply IH]. }
  assert (Hbl : Forall (fun x => 2 <= ilen (snd x)) (b_ins b)).
  { rewrite Forall_forall in *. intros x Hx. apply Hall. rewrite <- Hcc. apply in_concat. exists (b_ins b). split; [apply in_map, Hb|exact Hx]. }
  assert (G : forall s bs e, chain s bs e -> forall b0, In b0 bs -> contig (b_start b0) (b_ins b0)).
  { intros s bs. revert s. induction bs as [|x bs IHb]; intros s e Hc b0 Hi; [destruct Hi|].
    simpl in Hc. destruct Hc as [H1 [H2 [H3 H4]]]. destruct Hi as [<-|Hi]; [rewrite H1; exact H3|eapply IHb; eassumption]. }
  destruct (contig_in_range _ _ q (G _ _ _ Hch b Hb) Hbl Hq) as [H1 H2]. rewrite b_end_eq. tauto.
Qed.

Theorem covered_instruction_reported : forall insl excs b q e,
  let code := with_off 0 insl in
  sized insl -> wf_excs code excs -> In b (blocks_of code excs) -> In q (b_ins b) -> In e excs ->
  e_start e <= fst q <= e_end e -> block_exception excs b = Some e.
Proof.
  intros insl excs b q e code Hs Hw Hb Hq He Hcov.
  destruct (block_instruction_range insl excs b q Hs Hb Hq) as [H1 [H2 Hin]].
  assert (Hq2 : 2 <= ilen (snd q)).
  { clear - Hs Hin. revert Hin. generalize 0. induction Hs as [|i l Hi Hl IH]; intros s Hin; [destruct Hin|].
    simpl in Hin. destruct Hin as [<-|Hin]; [exact Hi|eapply IH; exact Hin]. }
  apply (proj2 (block_exception_exact insl excs b e Hs Hw Hb)). split; [exact He|]. split; [|lia].
  destruct (Z_lt_dec (b_start b) (e_start e)) as [Hlt|]; [|lia].
  destruct Hw as [Hw1 _]. pose proof (try_start_not_inside insl excs e b Hs He (Hw1 e He) Hb). fold code in H. lia.
Qed.

(* ---- C11: successors and predecessors ---- *)
Definition lookup_targets (bs : list block) (lidx : Z) (vs : list Z) : list (Z * Z * Z) :=
  flat_map (fun v => if v =? -1 then [] else
                     match get_basic_block bs v with Some c => [(lidx, v, b_start c)] | None => [] end) vs.

Theorem childs_by_kind : forall code bs b lidx li, b_last b = Some (lidx, li) ->
  childs code bs b =
  match ikind li with
  | KExit => []
  | KGoto off => lookup_targets bs lidx [off * 2 + lidx]
  | KIf off => lookup_targets bs lidx [lidx + ilen li; off * 2 + lidx]
  | KSwitch off => lookup_targets bs lidx (determine_next code lidx li)
  | _ => match get_basic_block bs (b_end b + 1) with Some c => [(lidx, b_end b, b_start c)] | None => [] end
  end.
Proof.
  intros code bs b lidx li H. unfold childs. rewrite H. destruct (ikind li) eqn:K; cbn [is_branch]; try reflexivity.
  - unfold determine_next. rewrite K. reflexivity.
  - unfold determine_next. rewrite K. reflexivity.
  - unfold determine_next. rewrite K. reflexivity.
  - unfold determine_next at 1. rewrite K. reflexivity.
Qed.

(* the case targets of a switch: the instruction after it, then one target per payload entry when the (aligned) payload is found *)
Theorem switch_targets : forall code lidx li off, ikind li = KSwitch off ->
  determine_next code lidx li =
  (lidx + ilen li) ::
  match get_ins_off code (off * 2 + lidx + (if (off * 2 + lidx) mod 4 =? 0 then 0 else 4 - (off * 2 + lidx) mod 4)) with
  | Some {| ikind := KSwitchPayload ts |} => map (fun t => t * 2 + lidx) ts
  | _ => []
  end.
Proof. intros code lidx li off K. unfold determine_next. rewrite K. reflexivity. Qed.

Theorem fathers_inverse : forall code bs b tgt src fs,
  In (tgt, src, fs) (fathers code bs b) <-> exists f, In f bs /\ fs = b_start f /\ In (src, tgt, b_start b) (childs code bs f).
Proof.
  intros code bs b tgt src fs. unfold fathers. rewrite in_flat_map. split.
  - intros [f [Hf H]]. apply in_flat_map in H. destruct H as [[[s t] cs] [Hc H]].
    destruct (cs =? b_start b) eqn:E; [|destruct H]. apply Z.eqb_eq in E. destruct H as [H|[]]. inversion H; subst.
    exists f. split; [exact Hf|]. split; [reflexivity|exact Hc].
  - intros [f [Hf [-> Hc]]]. exists f. split; [exact Hf|]. apply in_flat_map. exists (src, tgt, b_start b). split; [exact Hc|].
    rewrite Z.eqb_refl. left. reflexivity.
Qed.

(* the last instruction of a block ends the block *)
Lemma last_instruction_ends_block : forall insl excs b lidx li, In b (blocks_of (with_off 0 insl) excs) ->
  b_last b = Some (lidx, li) -> lidx + ilen li = b_end b.
Proof.
  intros insl excs b lidx li Hb Hl. destruct (blocks_partition insl excs) as [Hch _].
  assert (G : forall s bs e, chain s bs e -> forall b0, In b0 bs -> contig (b_start b0) (b_ins b0)).
  { intros s bs. revert s. induction bs as [|x bs IHb]; intros s e Hc b0 Hi; [destruct Hi|].
    simpl in Hc. destruct Hc as [H1 [H2 [H3 H4]]]. destruct Hi as [<-|Hi]; [rewrite H1; exact H3|eapply IHb; eassumption]. }
  specialize (G _ _ _ Hch b Hb). unfold b_last in Hl.
  destruct (b_ins b) as [|x r] eqn:E; [discriminate|]. assert (Hne : x :: r <> []) by discriminate.
  destruct (exists_last Hne) as [p [y Ey]]. rewrite Ey in Hl, G. rewrite map_app in Hl. change (map Some [y]) with [Some y] in Hl. rewrite last_last in Hl. inversion Hl; subst y.
  apply contig_app in G. destruct G as [_ G]. apply contig_cons in G. destruct G as [G _]. cbn [fst snd] in G.
  rewrite b_end_eq, E, Ey, code_len_app, code_len_cons. unfold code_len at 2. cbn. lia.
Qed.

(* the block reached by falling through is the next block of the list *)
Lemma next_block_lookup : forall insl excs pre b c post, sized insl ->
  blocks_of (with_off 0 insl) excs = pre ++ b :: c :: post ->
  get_basic_block (blocks_of (with_off 0 insl) excs) (b_end b + 1) = Some c /\
  get_basic_block (blocks_of (with_off 0 insl) excs) (b_end b) = Some c /\ b_start c = b_end b.
Proof.
  intros insl excs pre b c post Hs E. destruct (blocks_partition insl excs) as [Hch _].
  pose proof (blocks_big insl excs Hs) as Hbig. rewrite E in Hch |- *. rewrite E in Hbig.
  assert (Hc : In c (pre ++ b :: c :: post)) by (apply in_or_app; right; right; left; reflexivity).
  pose proof Hch as Hch2. apply chain_app in Hch2. destruct Hch2 as [m [_ H2]]. simpl in H2. destruct H2 as [_ [_ [_ [H3 _]]]].
  pose proof (Hbig c Hc) as Hl.
  split; [|split; [|exact H3]]; (eapply lookup_hit; try eassumption; rewrite (b_end_eq c); lia).
Qed.
Lemma last_block_no_successor : forall insl excs pre b, sized insl ->
  blocks_of (with_off 0 insl) excs = pre ++ [b] ->
  get_basic_block (blocks_of (with_off 0 insl) excs) (b_end b + 1) = None.
Proof.
  intros insl excs pre b Hs E. destruct (blocks_partition insl excs) as [Hch _].
  pose proof (blocks_big insl excs Hs) as Hbig. rewrite E in Hch |- *. rewrite E in Hbig.
  eapply lookup_miss; try eassumption. right.
  apply chain_app in Hch. destruct Hch as [m [_ H2]]. simpl in H2. destruct H2 as [_ [_ [_ H3]]]. lia.
Qed.

(* ---- C40: block boundaries are instruction offsets ---- *)
Theorem block_boundaries : forall insl excs b,
  let code := with_off 0 insl in
  In b (blocks_of code excs) ->
  In (b_start b) (map fst code) /\ (In (b_end b) (map fst code) \/ b_end b = code_len code).
Proof.
  intros insl excs b code Hb. destruct (blocks_partition insl excs) as [Hch Hcc]. fold code in Hch, Hcc.
  assert (Hstart : forall s bs e, chain s bs e -> forall b0, In b0 bs ->
            exists q, hd_error (b_ins b0) = Some q /\ fst q = b_start b0).
  { intros s bs. revert s. induction bs as [|x bs IHb]; intros s e Hc b0 Hi; [destruct Hi|].
    simpl in Hc. destruct Hc as [H1 [H2 [H3 H4]]]. destruct Hi as [<-|Hi]; [|eapply IHb; eassumption].
    destruct (b_ins x) as [|q r]; [congruence|]. exists q. split; [reflexivity|]. apply contig_cons in H3. rewrite H1. apply H3. }
  assert (Hs : forall b0, In b0 (blocks_of code excs) -> In (b_start b0) (map fst code)).
  { intros b0 Hb0. destruct (Hstart _ _ _ Hch b0 Hb0) as [q [Hq1 Hq2]]. rewrite <- Hq2. apply in_map. rewrite <- Hcc.
    apply in_concat. exists (b_ins b0). split; [apply in_map, Hb0|]. destruct (b_ins b0); [discriminate|]. inversion Hq1. left. reflexivity. }
  split; [apply Hs, Hb|].
  apply in_split in Hb. destruct Hb as [pre [post E]]. rewrite E in Hch. apply chain_app in Hch. destruct Hch as [m [_ H2]].
  simpl in H2. destruct H2 as [_ [_ [_ H3]]]. destruct post as [|c post].
  - right. simpl in H3. exact H3.
  - left. simpl in H3. destruct H3 as [H3 _]. rewrite <- H3. apply Hs. rewrite E. apply in_or_app. right. right. left. reflexivity.
Qed.

Theorem special_ins_spec : forall code b idx r,
  In (idx, r) (special_ins code b) <->
  exists i off, In (idx, i) (b_ins b) /\ (ikind i = KSwitch off \/ ikind i = KFill off) /\
                r = option_map fst (find (fun q => fst q =? idx + off * 2) code).
Proof.
  intros code b idx r. unfold special_ins. rewrite in_flat_map. split.
  - intros [[o i] [Hin H]]. cbn [fst snd] in H. destruct (ikind i) eqn:K; try (now destruct H).
    + destruct H as [H|[]]. inversion H; subst. exists i, off. split; [exact Hin|]. split; [left; exact K|reflexivity].
    + destruct H as [H|[]]. inversion H; subst. exists i, off. split; [exact Hin|]. split; [right; exact K|reflexivity].
  - intros [i [off [Hin [[K|K] ->]]]]; exists (idx, i); (split; [exact Hin|]); cbn [fst snd]; rewrite K; left; reflexivity.
Qed.

(* ---- C10, stated by cause ---- *)
Theorem branch_targets_begin_blocks : forall insl excs o i v j,
  let code := with_off 0 insl in
  In (o, i) code -> is_branch (ikind i) = true -> In v (determine_next code o i) -> In (v, j) code ->
  exists b, In b (blocks_of code excs) /\ b_start b = v /\ hd_error (b_ins b) = Some (v, j).
Proof.
  intros insl excs o i v j code Ho Hbr Hv Hj. apply (leaders_begin_blocks insl excs (v, j) Hj). cbn [fst].
  unfold leaders. apply in_or_app. left. apply in_flat_map. exists (o, determine_next code o i). split; [|exact Hv].
  unfold branch_map. apply in_flat_map. exists (o, i). split; [exact Ho|]. cbn [fst snd]. rewrite Hbr. left. reflexivity.
Qed.
Theorem try_addresses_begin_blocks : forall insl excs e v j,
  let code := with_off 0 insl in
  In e excs -> (v = e_start e \/ In v (map snd (e_handlers e))) -> In (v, j) code ->
  exists b, In b (blocks_of code excs) /\ b_start b = v /\ hd_error (b_ins b) = Some (v, j).
Proof.
  intros insl excs e v j code He Hv Hj. apply (leaders_begin_blocks insl excs (v, j) Hj). cbn [fst].
  unfold leaders. apply in_or_app. right. apply in_flat_map. exists e. split; [exact He|].
  destruct Hv as [->|Hv]; [left; reflexivity|right; exact Hv].
Qed.

Theorem lookup_exact : forall insl excs c v, sized insl ->
  let bs := blocks_of (with_off 0 insl) excs in
  (get_basic_block bs v = Some c <-> In c bs /\ b_start c <= v < b_end c).
Proof.
  intros insl excs c v Hs bs. split; [apply lookup_inv|]. intros [H1 H2].
  destruct (blocks_partition insl excs) as [Hch _]. eapply lookup_hit; try eassumption. apply blocks_big, Hs.
Qed.

Theorem reported_range_covers : forall insl excs b e,
  let code := with_off 0 insl in
  sized insl -> wf_excs code excs -> In b (blocks_of code excs) -> block_exception excs b = Some e ->
  exists q, hd_error (b_ins b) = Some q /\ e_start e <= fst q <= e_end e.
Proof.
  intros insl excs b e code Hs Hw Hb H. apply (proj1 (block_exception_exact insl excs b e Hs Hw Hb)) in H. destruct H as [_ H].
  destruct (blocks_partition insl excs) as [Hch _]. fold code in Hch.
  assert (G : forall s bs e0, chain s bs e0 -> forall b0, In b0 bs -> exists q, hd_error (b_ins b0) = Some q /\ fst q = b_start b0).
  { intros s bs. revert s. induction bs as [|x bs IHb]; intros s e0 Hc b0 Hi; [destruct Hi|].
    simpl in Hc. destruct Hc as [H1 [H2 [H3 H4]]]. destruct Hi as [<-|Hi]; [|eapply IHb; eassumption].
    destruct (b_ins x) as [|q r]; [congruence|]. exists q. split; [reflexivity|]. apply contig_cons in H3. rewrite H1. apply H3. }
  destruct (G _ _ _ Hch b Hb) as [q [Hq1 Hq2]]. exists q. split; [exact Hq1|]. rewrite Hq2. exact H.
Qed.
