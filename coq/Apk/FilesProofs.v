(* C34 - lemmas about the APK file access model. *)
From Coq Require Import ZArith List Bool Lia.
Require Import V.Lib.Val V.Lib.Result V.Apk.FilesModel.
Import ListNotations.
Open Scope Z_scope.

Definition digit (c : Z) : Prop := 48 <= c <= 57.
Definition is_dex_name (n : list Z) : Prop := exists ds, Forall digit ds /\ n = S_CLASSES ++ ds ++ S_DOTDEX.

Lemma str_eqb_eq : forall a b, str_eqb a b = true <-> a = b.
Proof.
  unfold str_eqb. induction a as [|x a IH]; intros [|y b]; simpl; split; intro H; try discriminate; try reflexivity.
  - apply andb_true_iff in H. destruct H as [H1 H2]. apply Z.eqb_eq in H1. apply IH in H2. subst. reflexivity.
  - inversion H; subst. rewrite Z.eqb_refl. simpl. apply IH. reflexivity.
Qed.

Lemma starts_with_spec : forall p s, starts_with p s = true <-> exists r, s = p ++ r.
Proof.
  induction p as [|a p IH]; intros s; simpl.
  - split; [intros _; exists s; reflexivity|reflexivity].
  - destruct s as [|b s]; [split; [discriminate|intros [r H]; discriminate]|].
    rewrite andb_true_iff, IH, Z.eqb_eq. split.
    + intros [-> [r ->]]. exists r. reflexivity.
    + intros [r H]. inversion H; subst. split; [reflexivity|exists r; reflexivity].
Qed.

Lemma drop_digits_split : forall s, exists ds, Forall digit ds /\ s = ds ++ drop_digits s.
Proof.
  induction s as [|c t [ds [Hd IH]]]; simpl; [exists []; split; [constructor|reflexivity]|].
  destruct ((48 <=? c) && (c <=? 57)) eqn:E.
  - exists (c :: ds). split; [constructor; [unfold digit; lia|exact Hd]|]. simpl. f_equal. exact IH.
  - exists []. split; [constructor|reflexivity].
Qed.
Lemma drop_digits_app : forall ds r, Forall digit ds -> drop_digits (ds ++ r) = drop_digits r.
Proof.
  induction 1 as [|c ds Hc Hds IH]; simpl; [reflexivity|]. unfold digit in Hc.
  replace ((48 <=? c) && (c <=? 57)) with true by (symmetry; apply andb_true_iff; split; apply Z.leb_le; lia). exact IH.
Qed.

Theorem dex_match_spec : forall n, dex_match n = true <-> is_dex_name n.
Proof.
  intros n. unfold dex_match, is_dex_name. rewrite andb_true_iff, starts_with_spec, str_eqb_eq. split.
  - intros [[r ->] H]. change (skipn 7 (S_CLASSES ++ r)) with r in H.
    destruct (drop_digits_split r) as [ds [Hd E]]. exists ds. split; [exact Hd|]. rewrite H in E. rewrite E. reflexivity.
  - intros [ds [Hd ->]]. split; [eexists; reflexivity|].
    change (skipn 7 (S_CLASSES ++ ds ++ S_DOTDEX)) with (ds ++ S_DOTDEX). rewrite drop_digits_app by exact Hd. reflexivity.
Qed.

Theorem dex_search_eq : forall n, dex_search n = dex_match n.
Proof.
  intros n. unfold dex_search, dex_match. destruct (starts_with S_CLASSES n); [|reflexivity]. cbn [andb].
  destruct (skipn 7 n) as [|c t]; [reflexivity|]. cbn [drop_digits]. destruct ((48 <=? c) && (c <=? 57)); reflexivity.
Qed.

(* ---- entries ---- *)
Lemma get_file_present : forall a n c, NoDup (map fst a) -> In (n, c) a -> get_file a n = Ok c.
Proof.
  induction a as [|[m d] a IH]; intros n c Hnd Hin; [destruct Hin|]. unfold get_file. cbn [find fst].
  inversion Hnd as [|? ? Hnot Hnd']; subst. destruct Hin as [E|Hin].
  - inversion E; subst. replace (str_eqb n n) with true by (symmetry; apply str_eqb_eq; reflexivity). reflexivity.
  - destruct (str_eqb m n) eqn:Em.
    + apply str_eqb_eq in Em. subst m. exfalso. apply Hnot. apply in_map_iff. exists (n, c). split; [reflexivity|exact Hin].
    + apply (IH n c Hnd' Hin).
Qed.
Lemma get_file_missing : forall a n, ~ In n (map fst a) -> get_file a n = Err FileNotPresent.
Proof.
  induction a as [|[m d] a IH]; intros n Hn; [reflexivity|]. unfold get_file. cbn [find fst].
  destruct (str_eqb m n) eqn:Em.
  - apply str_eqb_eq in Em. subst. exfalso. apply Hn. left. reflexivity.
  - apply IH. intro H. apply Hn. right. exact H.
Qed.

Theorem get_dex_names_spec : forall a n, In n (get_dex_names a) <-> In n (get_files a) /\ is_dex_name n.
Proof. intros a n. unfold get_dex_names. rewrite filter_In, dex_match_spec. reflexivity. Qed.

Lemma filter_map_fst : forall (a : archive) p, filter p (map fst a) = map fst (filter (fun e => p (fst e)) a).
Proof. induction a as [|e a IH]; intros p; simpl; [reflexivity|]. destruct (p (fst e)); simpl; now rewrite IH. Qed.

Theorem get_all_dex_spec : forall a, NoDup (map fst a) ->
  get_all_dex a = map (fun e => Ok (snd e)) (filter (fun e => dex_match (fst e)) a).
Proof.
  intros a Hnd. unfold get_all_dex, get_dex_names, get_files. rewrite filter_map_fst, map_map.
  apply map_ext_in. intros [n c] Hin. apply filter_In in Hin. destruct Hin as [Hin _]. cbn [fst snd].
  apply get_file_present; assumption.
Qed.

Theorem is_multidex_spec : forall a, is_multidex a = true <-> (2 <= length (get_dex_names a))%nat.
Proof.
  intros a. unfold is_multidex, get_dex_names.
  replace (filter dex_search (get_files a)) with (filter dex_match (get_files a))
    by (apply filter_ext; intros; symmetry; apply dex_search_eq).
  rewrite Z.ltb_lt. lia.
Qed.
