(* C33 - the search for the APK Signing Block: end of central directory record, central directory offset, magic, the two size
   fields.  For a file laid out as  prefix ++ block ++ central directory ++ end record  the pairs of the block are found. *)
From Coq Require Import ZArith List Bool Lia ZifyBool.
Require Import V.Lib.Val V.Lib.Result V.Lib.Struct V.Apk.SigBlockModel V.Apk.SigBlockProofs.
Import ListNotations.
Open Scope Z_scope.

Lemma slice_at pre a rest : slice (pre ++ a ++ rest) (len pre) (len a) = a.
Proof. unfold slice. rewrite dropz_app. apply takez_app. Qed.
Lemma slice_at' file pre a rest off n : file = pre ++ a ++ rest -> off = len pre -> n = len a -> slice file off n = a.
Proof. intros -> -> ->. apply slice_at. Qed.
Lemma bytes_eqb_refl a : bytes_eqb a a = true.
Proof. unfold bytes_eqb. induction a as [|x a IH]; cbn [list_eqb]; [reflexivity|]. now rewrite Z.eqb_refl, IH. Qed.
Lemma scan_finds file p : forall k, (0 <= p) -> (Z.to_nat p < k)%nat -> bytes_eqb (slice file p 4) PK_EOCD = true ->
  (forall q, p < q < Z.of_nat k -> bytes_eqb (slice file q 4) PK_EOCD = false) -> scan_eocd k file = Some p.
Proof.
  induction k as [|k IH]; intros Hp Hk Hm Hno; [lia|]. cbn [scan_eocd]. destruct (Z.eq_dec (Z.of_nat k) p) as [E|E].
  - rewrite E, Hm. reflexivity.
  - rewrite Hno by lia. apply IH; [lia | lia | exact Hm | intros q Hq; apply Hno; lia].
Qed.
Lemma le_lbytes n x : 0 <= x < 2 ^ width n -> le (lbytes n x) = x.
Proof. apply lu_lbytes. Qed.

Lemma takez8_u64 x r : takez 8 (u64 x ++ r) = u64 x.
Proof. change 8 with (len (u64 x)). apply takez_app. Qed.
Lemma dropz8_u64 x r : dropz 8 (u64 x ++ r) = r.
Proof. change 8 with (len (u64 x)). apply dropz_app. Qed.

(* the file *)
Definition sig_block (kvs : list kv) : list Z :=
  let P := flat_map kv_bytes kvs in u64 (len P + 24) ++ P ++ u64 (len P + 24) ++ MAGIC.
Definition eocd (e8 : list Z) (cdsize off : Z) (comment_part : list Z) : list Z := PK_EOCD ++ e8 ++ u32 cdsize ++ u32 off ++ comment_part.
Theorem locate_finds_the_block pre kvs cdrest e0 e1 e2 e3 e4 e5 e6 e7 cdsize comment_part :
  let B := sig_block kvs in let off := len pre + len B in
  let file := pre ++ B ++ (PK_CD ++ cdrest) ++ eocd [e0; e1; e2; e3; e4; e5; e6; e7] cdsize off comment_part in
  Forall wf_kv kvs -> len (flat_map kv_bytes kvs) + 24 < 18446744073709551616 -> off < 4294967296 -> 0 <= cdsize < 4294967296 -> 2 <= len comment_part ->
  (forall q, len pre + len B + len (PK_CD ++ cdrest) < q <= len file - 22 -> bytes_eqb (slice file q 4) PK_EOCD = false) ->
  locate file = Ok (Pairs (tag [] kvs)).
Proof.
  intros B off file Hkv Hsz Hoff Hcd Hc Hno.
  set (P := flat_map kv_bytes kvs) in *. set (CD := PK_CD ++ cdrest) in *. set (E := eocd [e0; e1; e2; e3; e4; e5; e6; e7] cdsize off comment_part) in *.
  pose proof (len_nonneg pre) as Lp. pose proof (len_nonneg P) as LP. pose proof (len_nonneg cdrest) as Lc.
  assert (LB : len B = len P + 32) by (unfold B, sig_block; fold P; rewrite !len_app, !len_u64; change (len MAGIC) with 16; lia).
  assert (LCD : len CD = 4 + len cdrest) by (unfold CD; rewrite len_app; reflexivity).
  assert (LE : len E = 20 + len comment_part) by (unfold E, eocd; rewrite !len_app, !len_u32; change (len PK_EOCD) with 4; unfold len at 1; cbn [length]; lia).
  assert (Lf : len file = len pre + len B + len CD + len E) by (unfold file; rewrite !len_app; lia).
  set (p := len pre + len B + len CD).
  unfold locate. replace (len file <? 21) with false by lia.
  assert (Sc : scan_eocd (Z.to_nat (len file - 21)) file = Some p).
  { apply scan_finds; [unfold p; lia | lia | | intros q Hq; apply Hno; unfold p in Hq; lia].
    replace (slice file p 4) with PK_EOCD; [apply bytes_eqb_refl|]. symmetry.
    apply (slice_at' file (pre ++ B ++ CD) PK_EOCD ([e0; e1; e2; e3; e4; e5; e6; e7] ++ u32 cdsize ++ u32 off ++ comment_part));
      [unfold file, E, eocd; rewrite <- !app_assoc; reflexivity | unfold p; rewrite !len_app; lia | reflexivity]. }
  rewrite Sc.
  assert (S16 : slice file (p + 4) 16 = [e0; e1; e2; e3; e4; e5; e6; e7] ++ u32 cdsize ++ u32 off).
  { apply (slice_at' file (pre ++ B ++ CD ++ PK_EOCD) _ comment_part);
      [unfold file, E, eocd; rewrite <- !app_assoc; reflexivity | unfold p; rewrite !len_app; change (len PK_EOCD) with 4; lia | rewrite !len_app, !len_u32; reflexivity]. }
  rewrite S16. unfold u32. cbn [lbytes app].
  set (o0 := off mod 256). set (o1 := off / 256 mod 256). set (o2 := off / 256 / 256 mod 256). set (o3 := off / 256 / 256 / 256 mod 256).
  assert (Eo : le [o0; o1; o2; o3] = off) by (change [o0; o1; o2; o3] with (lbytes 4 off); apply le_lbytes; change (2 ^ width 4) with 4294967296; lia).
  rewrite Eo. replace (off =? 0) with false by lia.
  assert (Scd : slice file off 4 = PK_CD).
  { apply (slice_at' file (pre ++ B) PK_CD (cdrest ++ E)); [unfold file, CD; rewrite <- !app_assoc; reflexivity | unfold off; rewrite len_app; lia | reflexivity]. }
  rewrite Scd, bytes_eqb_refl. cbn [negb]. replace (off - 24 <? 0) with false by lia.
  assert (St : slice file (off - 24) 24 = u64 (len P + 24) ++ MAGIC).
  { apply (slice_at' file (pre ++ u64 (len P + 24) ++ P) _ (CD ++ E));
      [unfold file, B, sig_block; fold P; rewrite <- !app_assoc; reflexivity | unfold off; rewrite !len_app, len_u64; lia | rewrite len_app, len_u64; reflexivity]. }
  rewrite St. rewrite !takez8_u64, !dropz8_u64, bytes_eqb_refl. cbn [negb].
  assert (Es : le (u64 (len P + 24)) = len P + 24) by (apply le_lbytes; change (2 ^ width 8) with 18446744073709551616; lia).
  rewrite Es. replace (off - (len P + 24 + 8)) with (len pre) by lia. replace (len pre <? 0) with false by lia.
  replace (dropz (len pre) file) with (u64 (len P + 24) ++ P ++ u64 (len P + 24) ++ MAGIC ++ CD ++ E)
    by (unfold file, B, sig_block; fold P; rewrite dropz_app, <- !app_assoc; reflexivity).
  rewrite read_u64_enc by lia. cbn [bind].
  rewrite Z.eqb_refl. cbn [negb].
  replace (off - 24 - (len pre + 8)) with (len P) by lia.
  replace (dropz (len pre + 8) file) with (P ++ u64 (len P + 24) ++ MAGIC ++ CD ++ E).
  2: { unfold file, B, sig_block. fold P. replace (len pre + 8) with (len (pre ++ u64 (len P + 24))) by (rewrite len_app, len_u64; lia).
       rewrite <- !app_assoc. rewrite (app_assoc pre). now rewrite dropz_app. }
  unfold P. rewrite parse_pairs_enc; [reflexivity | exact Hkv|].
  unfold file, B, sig_block. fold P. rewrite !app_length.
  assert (length kvs <= length P)%nat.
  { unfold P. clear. induction kvs as [|k kvs IH]; cbn [flat_map length]; [lia|]. rewrite app_length. set (n := length (flat_map kv_bytes kvs)) in *. unfold kv_bytes, u64, u32. rewrite !app_length. cbn [lbytes length]. lia. }
  lia.
Qed.
