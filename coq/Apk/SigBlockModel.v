(* C33 - hand-written model of APK.parse_v2_v3_signature, parse_signatures_or_digests, parse_v2_signing_block and
   parse_v3_signing_block (androguard/core/apk/__init__.py).  A BytesIO is "the bytes from the current position on";
   read(n) returns what is there (possibly fewer than n bytes), unpack fails on short input.  Every failure (struct.error,
   BrokenAPKError, ValueError of a negative seek) is one error value.  Tied to the source by tools/props/c33.py. *)
From Coq Require Import ZArith List Bool.
Require Import V.Lib.Val V.Lib.Result V.Lib.Struct.
Import ListNotations.
Open Scope Z_scope.

(* list-driven, so that a 64-bit size read from the file never becomes a unary number *)
Fixpoint takez (n : Z) (l : list Z) : list Z :=
  match l with [] => [] | x :: r => if n <=? 0 then [] else x :: takez (n - 1) r end.
Fixpoint dropz (n : Z) (l : list Z) : list Z :=
  match l with [] => [] | x :: r => if n <=? 0 then l else dropz (n - 1) r end.
Definition le (bs : list Z) : Z := lu bs.                       (* little-endian value, coq/Lib/Struct.v *)
Definition len (l : list Z) : Z := Z.of_nat (length l).
Definition FAIL {A} : result A := Err OtherError.

Definition read_u32 (l : list Z) : result (Z * list Z) :=
  match l with a :: b :: c :: d :: r => Ok (le [a; b; c; d], r) | _ => FAIL end.
Definition read_u64 (l : list Z) : result (Z * list Z) :=
  match l with a :: b :: c :: d :: e :: f :: g :: h :: r => Ok (le [a; b; c; d; e; f; g; h], r) | _ => FAIL end.
(* read(n) after a length prefix *)
Definition read_lp (l : list Z) : result (list Z * list Z) := do ' (n, r) <- read_u32 l; Ok (takez n r, dropz n r).

(* parse_signatures_or_digests: (algorithm id, bytes) until the input is used up *)
Fixpoint parse_sod (fuel : nat) (l : list Z) : result (list (Z * list Z)) :=
  match l with
  | [] => Ok []
  | _ => match fuel with
         | O => Err OutOfFuel
         | S f => do ' (_, r1) <- read_u32 l; do ' (alg, r2) <- read_u32 r1; do ' (d, r3) <- read_lp r2;
                  do rest <- parse_sod f r3; Ok ((alg, d) :: rest)
         end
  end.
Definition sod (l : list Z) : result (list (Z * list Z)) := parse_sod (length l) l.

(* the certificate loop: while tell() < start + len_certs *)
Fixpoint parse_certs (fuel : nat) (remaining : Z) (l : list Z) : result (list (list Z) * list Z) :=
  if remaining <=? 0 then Ok ([], l) else
  match fuel with
  | O => Err OutOfFuel
  | S f => do ' (n, r) <- read_u32 l;
           let c := takez n r in
           do ' (cs, r') <- parse_certs f (remaining - 4 - len c) (dropz n r); Ok (c :: cs, r')
  end.

Record signed_data := { sd_digests : list (Z * list Z); sd_certs : list (list Z); sd_sdk : option (Z * Z); sd_attrs : list Z }.
Record signer := { s_data : signed_data; s_sdk : option (Z * Z); s_sigs : list (Z * list Z); s_pk : list Z }.

Definition read_sdk (v3 : bool) (l : list Z) : result (option (Z * Z) * list Z) :=
  if v3 then do ' (a, r1) <- read_u32 l; do ' (b, r2) <- read_u32 r1; Ok (Some (a, b), r2) else Ok (None, l).
Definition parse_signed_data (v3 : bool) (l : list Z) : result signed_data :=
  do ' (raw_d, r1) <- read_lp l;
  do ds <- sod raw_d;
  do ' (lc, r2) <- read_u32 r1;
  do ' (cs, r3) <- parse_certs (S (length r2)) lc r2;
  do ' (sdk, r4) <- read_sdk v3 r3;
  do ' (attrs, _) <- read_lp r4;
  Ok {| sd_digests := ds; sd_certs := cs; sd_sdk := sdk; sd_attrs := attrs |}.
Definition parse_signer (v3 : bool) (l : list Z) : result (signer * list Z) :=
  do ' (_, r0) <- read_u32 l;                                  (* size_signer: only used for the raw slice *)
  do ' (sdb, r1) <- read_lp r0;
  do sd <- parse_signed_data v3 sdb;
  do ' (sdk, r2) <- read_sdk v3 r1;
  do ' (raw_s, r3) <- read_lp r2;
  do sigs <- sod raw_s;
  do ' (pk, r4) <- read_lp r3;
  Ok ({| s_data := sd; s_sdk := sdk; s_sigs := sigs; s_pk := pk |}, r4).
Fixpoint parse_signers (fuel : nat) (v3 : bool) (l : list Z) : result (list signer) :=
  match l with
  | [] => Ok []
  | _ => match fuel with
         | O => Err OutOfFuel
         | S f => do ' (s, r) <- parse_signer v3 l; do rest <- parse_signers f v3 r; Ok (s :: rest)
         end
  end.
(* the value of a v2 / v3 / v3.1 pair: a length-prefixed sequence of signers *)
Definition parse_block (v3 : bool) (data : list Z) : result (list signer) :=
  do ' (n, r) <- read_u32 data;
  if n + 4 =? len data then parse_signers (length r) v3 r else FAIL.

(* ---- the id-value pairs of the APK Signing Block ---- *)
Definition ID_V2 : Z := 1896449818.   (* 0x7109871a *)
Definition ID_V3 : Z := 4031998144.   (* 0xf05368c0 *)
Definition ID_V31 : Z := 462663009.   (* 0x1b93ad61 *)
Record pair := { p_id : Z; p_dup : bool; p_data : list Z }.
(* while f.tell() < end_offset - 24; remaining = bytes up to there; value = f.read(size - 4) (a negative count reads
   everything that is left in the FILE, which ends the loop) *)
Fixpoint parse_pairs (fuel : nat) (remaining : Z) (l : list Z) (acc : list pair) : result (list pair) :=
  if remaining <=? 0 then Ok acc else
  match fuel with
  | O => Err OutOfFuel
  | S f =>
      do ' (size, r1) <- read_u64 l; do ' (key, r2) <- read_u32 r1;
      (* f.read(n) with n above sys.maxsize (2^63 - 1): "cannot fit 'int' into an index-sized integer" *)
      if 9223372036854775807 <? size - 4 then Err OverflowError else
      let v := if size - 4 <? 0 then r2 else takez (size - 4) r2 in
      let rest := if size - 4 <? 0 then [] else dropz (size - 4) r2 in
      parse_pairs f (remaining - 12 - len v) rest (acc ++ [{| p_id := key; p_dup := existsb (fun p => p_id p =? key) acc; p_data := v |}])
  end.
Definition has_id (ps : list pair) (id : Z) : bool := existsb (fun p => p_id p =? id) ps.
Definition first_with (ps : list pair) (id : Z) : option (list Z) := option_map p_data (find (fun p => p_id p =? id) ps).

(* ---- locating the block: end of central directory, central directory, magic ---- *)
Definition PK_EOCD : list Z := [80; 75; 5; 6].
Definition PK_CD : list Z := [80; 75; 1; 2].
Definition MAGIC : list Z := [65; 80; 75; 32; 83; 105; 103; 32; 66; 108; 111; 99; 107; 32; 52; 50].
Definition bytes_eqb (a b : list Z) : bool := list_eqb Z.eqb a b.
Definition slice (file : list Z) (off n : Z) : list Z := takez n (dropz off file).
(* positions len-22, len-23, ..., 0 are tried in that order *)
Fixpoint scan_eocd (k : nat) (file : list Z) : option Z :=
  match k with
  | O => None
  | S k' => let pos := Z.of_nat k' in
            if bytes_eqb (slice file pos 4) PK_EOCD then Some pos else scan_eocd k' file
  end.
Inductive located := NoBlock | Pairs (ps : list pair).
Definition locate (file : list Z) : result located :=
  let n := len file in
  if n <? 21 then FAIL else                                   (* seek(-20) from the last byte *)
  match scan_eocd (Z.to_nat (n - 21)) file with
  | None => Ok NoBlock                                         (* offset_central stays None *)
  | Some pos =>
      match slice file (pos + 4) 16 with
      | [_; _; _; _; _; _; _; _; s0; s1; s2; s3; o0; o1; o2; o3] =>
          let off := le [o0; o1; o2; o3] in
          if off =? 0 then Ok NoBlock else
          if negb (bytes_eqb (slice file off 4) PK_CD) then FAIL else
          if off - 24 <? 0 then FAIL else
          let tail := slice file (off - 24) 24 in
          let size := le (takez 8 tail) in
          if negb (bytes_eqb (dropz 8 tail) MAGIC) then Ok (Pairs []) else
          let start := off - (size + 8) in
          if start <? 0 then FAIL else
          do ' (size0, _) <- read_u64 (dropz start file);
          if negb (size0 =? size) then FAIL else
          do ps <- parse_pairs (length file) (off - 24 - (start + 8)) (dropz (start + 8) file) [];
          Ok (Pairs ps)
      | _ => FAIL
      end
  end.

(* ---- observation ---- *)
Definition vbytes (l : list Z) : val := vlistZ l.
Definition vsod (l : list (Z * list Z)) : val := VList (map (fun p => VList [VZ (fst p); vbytes (snd p)]) l).
Definition vsdk (o : option (Z * Z)) : val := match o with Some (a, b) => VList [VZ a; VZ b] | None => VNone end.
Definition vsigner (s : signer) : val :=
  VList [vsod (sd_digests (s_data s)); VList (map vbytes (sd_certs (s_data s))); vsdk (sd_sdk (s_data s)); vbytes (sd_attrs (s_data s));
         vsdk (s_sdk s); vsod (s_sigs s); vbytes (s_pk s)].
Definition vblock (ps : list pair) (id : Z) (v3 : bool) : val :=
  match first_with ps id with
  | None => VList []
  | Some data => vres (fun l => VList (map vsigner l)) (parse_block v3 data)
  end.
Definition obs_apk (file : list Z) : val :=
  match locate file with
  | Err e => VErr (err_code e)
  | Ok NoBlock => VNone
  | Ok (Pairs ps) =>
      VList [VB (has_id ps ID_V2); VB (has_id ps ID_V3); VB (has_id ps ID_V31); VB (existsb p_dup ps);
             VList (map (fun p => VList [VZ (p_id p); VB (p_dup p); vbytes (p_data p)]) ps);
             vblock ps ID_V2 false; vblock ps ID_V3 true; vblock ps ID_V31 true]
  end.
