(* C33 - proofs about coq/Apk/SigBlockModel.v: what is read back from an encoded signing block *)
From Coq Require Import ZArith List Bool Lia ZifyBool.
Require Import V.Lib.Val V.Lib.Result V.Lib.Struct V.Apk.SigBlockModel.
Import ListNotations.
Open Scope Z_scope.

(* ---------------------------------------------------------------- bytes *)
Lemma takez_app a r : takez (len a) (a ++ r) = a.
Proof.
  unfold len. induction a as [|x a IH].
  - cbn [app length]. destruct r; reflexivity.
  - cbn [app length takez]. replace (Z.of_nat (S (length a)) <=? 0) with false by lia.
    replace (Z.of_nat (S (length a)) - 1) with (Z.of_nat (length a)) by lia. now rewrite IH.
Qed.
Lemma dropz_app a r : dropz (len a) (a ++ r) = r.
Proof.
  unfold len. induction a as [|x a IH].
  - cbn [app length]. destruct r; reflexivity.
  - cbn [app length dropz]. replace (Z.of_nat (S (length a)) <=? 0) with false by lia.
    replace (Z.of_nat (S (length a)) - 1) with (Z.of_nat (length a)) by lia. exact IH.
Qed.
Definition u32 (n : Z) : list Z := lbytes 4 n.
Definition u64 (n : Z) : list Z := lbytes 8 n.
Definition fits32 (n : Z) : Prop := 0 <= n < 4294967296.
Lemma read_u32_enc n r : fits32 n -> read_u32 (u32 n ++ r) = Ok (n, r).
Proof.
  intros H. unfold u32. cbn [lbytes app read_u32]. f_equal. f_equal. unfold le.
  change [n mod 256; n / 256 mod 256; n / 256 / 256 mod 256; n / 256 / 256 / 256 mod 256] with (lbytes 4 n).
  apply lu_lbytes. unfold width. cbn. exact H.
Qed.
Lemma read_u64_enc n r : 0 <= n < 18446744073709551616 -> read_u64 (u64 n ++ r) = Ok (n, r).
Proof.
  intros H. unfold u64. cbn [lbytes app read_u64]. f_equal. f_equal. unfold le.
  match goal with |- lu ?l = _ => change l with (lbytes 8 n) end. apply lu_lbytes. unfold width. cbn. exact H.
Qed.
(* a length-prefixed byte string *)
Definition lp (b : list Z) : list Z := u32 (len b) ++ b.
Lemma read_lp_enc b r : fits32 (len b) -> read_lp (lp b ++ r) = Ok (b, r).
Proof. intros H. unfold read_lp, lp. rewrite <- app_assoc, read_u32_enc by exact H. cbn [bind]. now rewrite takez_app, dropz_app. Qed.
Lemma len_app a b : len (a ++ b) = len a + len b.
Proof. unfold len. rewrite app_length. lia. Qed.
Lemma len_u32 n : len (u32 n) = 4. Proof. reflexivity. Qed.
Lemma len_u64 n : len (u64 n) = 8. Proof. reflexivity. Qed.
Lemma len_nonneg l : 0 <= len l. Proof. unfold len. lia. Qed.

(* ---------------------------------------------------------------- signatures / digests *)
(* an entry as it lies in the file: four bytes the parser does not interpret, the algorithm id, the length-prefixed value *)
Record sod_enc := { se_skip : Z; se_alg : Z; se_data : list Z }.
Definition wf_sod (e : sod_enc) : Prop := fits32 (se_skip e) /\ fits32 (se_alg e) /\ fits32 (len (se_data e)).
Definition sod_bytes (e : sod_enc) : list Z := u32 (se_skip e) ++ u32 (se_alg e) ++ lp (se_data e).
Definition sod_val (e : sod_enc) : Z * list Z := (se_alg e, se_data e).
Lemma parse_sod_enc : forall es fuel, Forall wf_sod es -> (length es <= fuel)%nat ->
  parse_sod fuel (flat_map sod_bytes es) = Ok (map sod_val es).
Proof.
  induction es as [|e es IH]; intros fuel Hwf Hf; [destruct fuel; reflexivity|].
  inversion Hwf as [|? ? (W1 & W2 & W3) Hwf']; subst. destruct fuel as [|f]; [cbn [length] in Hf; lia|].
  cbn [flat_map]. unfold sod_bytes at 1. rewrite <- !app_assoc.
  remember (u32 (se_skip e) ++ u32 (se_alg e) ++ lp (se_data e) ++ flat_map sod_bytes es) as l eqn:El.
  assert (Hne : l <> []) by (rewrite El; unfold u32; cbn; discriminate).
  destruct l as [|x l']; [congruence|]. cbn [parse_sod]. rewrite El.
  rewrite read_u32_enc by exact W1. cbn [bind]. rewrite read_u32_enc by exact W2. cbn [bind].
  rewrite read_lp_enc by exact W3. cbn [bind]. rewrite IH; [reflexivity | assumption | cbn [length] in Hf; lia].
Qed.
Lemma sod_bytes_len es : (length es <= length (flat_map sod_bytes es))%nat.
Proof.
  induction es as [|e es IH]; [reflexivity|]. cbn [flat_map length]. rewrite app_length.
  assert (1 <= length (sod_bytes e))%nat by (unfold sod_bytes; rewrite app_length; unfold u32 at 1; cbn [lbytes length]; lia). lia.
Qed.
Lemma sod_enc_ok es : Forall wf_sod es -> sod (flat_map sod_bytes es) = Ok (map sod_val es).
Proof. intros H. unfold sod. apply parse_sod_enc; [exact H | apply sod_bytes_len]. Qed.

(* ---------------------------------------------------------------- certificates *)
Definition certs_bytes (cs : list (list Z)) : list Z := flat_map lp cs.
Lemma parse_certs_enc : forall cs fuel rest, Forall (fun c => fits32 (len c)) cs -> (length cs <= fuel)%nat ->
  parse_certs fuel (len (certs_bytes cs)) (certs_bytes cs ++ rest) = Ok (cs, rest).
Proof.
  induction cs as [|c cs IH]; intros fuel rest Hwf Hf.
  - destruct fuel; reflexivity.
  - inversion Hwf as [|? ? W Hwf']; subst. destruct fuel as [|f]; [cbn [length] in Hf; lia|].
    unfold certs_bytes. cbn [flat_map]. fold (certs_bytes cs). cbn [parse_certs].
    assert (L : len (lp c) = 4 + len c) by (unfold lp; now rewrite len_app, len_u32).
    rewrite len_app, L. pose proof (len_nonneg c). pose proof (len_nonneg (certs_bytes cs)).
    replace (4 + len c + len (certs_bytes cs) <=? 0) with false by lia.
    unfold lp. rewrite <- !app_assoc. rewrite read_u32_enc by exact W. cbn [bind]. rewrite takez_app, dropz_app.
    replace (4 + len c + len (certs_bytes cs) - 4 - len c) with (len (certs_bytes cs)) by lia.
    rewrite IH; [reflexivity | assumption | cbn [length] in Hf; lia].
Qed.

(* ---------------------------------------------------------------- signers *)
Record signer_enc := { ge_skip : Z;                                    (* the signer's size field: read, not interpreted *)
                       ge_digests : list sod_enc; ge_certs : list (list Z); ge_sd_sdk : Z * Z; ge_attrs : list Z;
                       ge_sdk : Z * Z; ge_sigs : list sod_enc; ge_pk : list Z }.
Definition sdk_bytes (v3 : bool) (p : Z * Z) : list Z := if v3 then u32 (fst p) ++ u32 (snd p) else [].
Definition sd_bytes (v3 : bool) (g : signer_enc) : list Z :=
  lp (flat_map sod_bytes (ge_digests g)) ++ lp (certs_bytes (ge_certs g)) ++ sdk_bytes v3 (ge_sd_sdk g) ++ lp (ge_attrs g).
Definition signer_bytes (v3 : bool) (g : signer_enc) : list Z :=
  u32 (ge_skip g) ++ lp (sd_bytes v3 g) ++ sdk_bytes v3 (ge_sdk g) ++ lp (flat_map sod_bytes (ge_sigs g)) ++ lp (ge_pk g).
Definition wf_signer (v3 : bool) (g : signer_enc) : Prop :=
  fits32 (ge_skip g) /\ Forall wf_sod (ge_digests g) /\ fits32 (len (flat_map sod_bytes (ge_digests g))) /\
  Forall (fun c => fits32 (len c)) (ge_certs g) /\ fits32 (len (certs_bytes (ge_certs g))) /\
  fits32 (fst (ge_sd_sdk g)) /\ fits32 (snd (ge_sd_sdk g)) /\ fits32 (len (ge_attrs g)) /\ fits32 (len (sd_bytes v3 g)) /\
  fits32 (fst (ge_sdk g)) /\ fits32 (snd (ge_sdk g)) /\
  Forall wf_sod (ge_sigs g) /\ fits32 (len (flat_map sod_bytes (ge_sigs g))) /\ fits32 (len (ge_pk g)).
Definition sdk_val (v3 : bool) (p : Z * Z) : option (Z * Z) := if v3 then Some p else None.
Definition signer_val (v3 : bool) (g : signer_enc) : signer :=
  {| s_data := {| sd_digests := map sod_val (ge_digests g); sd_certs := ge_certs g; sd_sdk := sdk_val v3 (ge_sd_sdk g); sd_attrs := ge_attrs g |};
     s_sdk := sdk_val v3 (ge_sdk g); s_sigs := map sod_val (ge_sigs g); s_pk := ge_pk g |}.

Lemma read_sdk_enc v3 p r : fits32 (fst p) -> fits32 (snd p) -> read_sdk v3 (sdk_bytes v3 p ++ r) = Ok (sdk_val v3 p, r).
Proof.
  intros H1 H2. unfold read_sdk, sdk_bytes, sdk_val. destruct v3; [|reflexivity]. rewrite <- app_assoc.
  rewrite read_u32_enc by exact H1. cbn [bind]. rewrite read_u32_enc by exact H2. cbn [bind]. now destruct p.
Qed.
Lemma certs_len cs : (length cs <= S (length (certs_bytes cs ++ [])))%nat.
Proof.
  rewrite app_nil_r. induction cs as [|c cs IH]; [cbn; lia|]. unfold certs_bytes in *. cbn [flat_map length]. rewrite app_length.
  unfold lp at 1. rewrite app_length. unfold u32. cbn [lbytes length]. lia.
Qed.
Lemma parse_signed_data_enc v3 g : wf_signer v3 g -> parse_signed_data v3 (sd_bytes v3 g) = Ok (s_data (signer_val v3 g)).
Proof.
  intros (_ & W1 & W2 & W3 & W4 & W5 & W6 & W7 & _). unfold parse_signed_data, sd_bytes.
  rewrite read_lp_enc by exact W2. cbn [bind]. rewrite sod_enc_ok by exact W1. cbn [bind].
  unfold lp at 1. rewrite <- app_assoc. rewrite read_u32_enc by exact W4. cbn [bind].
  rewrite parse_certs_enc; [|exact W3|].
  - cbn [bind]. rewrite read_sdk_enc by assumption. cbn [bind].
    rewrite <- (app_nil_r (lp (ge_attrs g))). rewrite read_lp_enc by exact W7. reflexivity.
  - rewrite !app_length. pose proof (certs_len (ge_certs g)). rewrite app_nil_r in H. lia.
Qed.
Lemma parse_signer_enc v3 g r : wf_signer v3 g -> parse_signer v3 (signer_bytes v3 g ++ r) = Ok (signer_val v3 g, r).
Proof.
  intros W. pose proof (parse_signed_data_enc v3 g W) as SD.
  destruct W as (W0 & _ & _ & _ & _ & _ & _ & _ & W8 & W9 & W10 & W11 & W12 & W13).
  unfold parse_signer, signer_bytes. rewrite <- !app_assoc. rewrite read_u32_enc by exact W0. cbn [bind].
  rewrite read_lp_enc by exact W8. cbn [bind]. rewrite SD. cbn [bind].
  rewrite read_sdk_enc by assumption. cbn [bind]. rewrite read_lp_enc by exact W12. cbn [bind].
  rewrite sod_enc_ok by exact W11. cbn [bind]. rewrite read_lp_enc by exact W13. reflexivity.
Qed.
Lemma parse_signers_enc v3 : forall gs fuel, Forall (wf_signer v3) gs -> (length gs <= fuel)%nat ->
  parse_signers fuel v3 (flat_map (signer_bytes v3) gs) = Ok (map (signer_val v3) gs).
Proof.
  induction gs as [|g gs IH]; intros fuel Hwf Hf; [destruct fuel; reflexivity|].
  inversion Hwf as [|? ? W Hwf']; subst. destruct fuel as [|f]; [cbn [length] in Hf; lia|].
  cbn [flat_map]. remember (signer_bytes v3 g ++ flat_map (signer_bytes v3) gs) as l eqn:El.
  assert (Hne : l <> []) by (rewrite El; unfold signer_bytes, u32; cbn; discriminate).
  destruct l as [|x l']; [congruence|]. cbn [parse_signers]. rewrite El.
  rewrite parse_signer_enc by exact W. cbn [bind]. rewrite IH; [reflexivity | assumption | cbn [length] in Hf; lia].
Qed.
Lemma signers_len v3 gs : (length gs <= length (flat_map (signer_bytes v3) gs))%nat.
Proof.
  induction gs as [|g gs IH]; [reflexivity|]. cbn [flat_map length]. rewrite app_length.
  assert (1 <= length (signer_bytes v3 g))%nat by (unfold signer_bytes; rewrite app_length; unfold u32 at 1; cbn [lbytes length]; lia). lia.
Qed.
(* the value of a v2 / v3 / v3.1 pair *)
Definition block_bytes (v3 : bool) (gs : list signer_enc) : list Z := lp (flat_map (signer_bytes v3) gs).
Theorem parse_block_enc v3 gs : Forall (wf_signer v3) gs -> fits32 (len (flat_map (signer_bytes v3) gs)) ->
  parse_block v3 (block_bytes v3 gs) = Ok (map (signer_val v3) gs).
Proof.
  intros W L. unfold parse_block, block_bytes, lp. rewrite read_u32_enc by exact L. cbn [bind].
  rewrite len_app, len_u32. replace (len (flat_map (signer_bytes v3) gs) + 4 =? 4 + len (flat_map (signer_bytes v3) gs)) with true by lia.
  apply parse_signers_enc; [exact W | apply signers_len].
Qed.

(* ---------------------------------------------------------------- the id-value pairs *)
Definition kv := (Z * list Z)%type.
Definition kv_bytes (p : kv) : list Z := u64 (len (snd p) + 4) ++ u32 (fst p) ++ snd p.
(* the length of a value is a count read() accepts (at most 2^63 - 1), so the size field is below 2^63 + 4 *)
Definition wf_kv (p : kv) : Prop := fits32 (fst p) /\ len (snd p) + 4 < 9223372036854775812.
(* the records the loop builds: a pair is flagged when its id occurred before *)
Fixpoint tag (seen : list pair) (kvs : list kv) : list pair :=
  match kvs with
  | [] => seen
  | p :: r => tag (seen ++ [{| p_id := fst p; p_dup := existsb (fun q => p_id q =? fst p) seen; p_data := snd p |}]) r
  end.
Lemma parse_pairs_enc : forall kvs fuel acc rest, Forall wf_kv kvs -> (length kvs <= fuel)%nat ->
  parse_pairs fuel (len (flat_map kv_bytes kvs)) (flat_map kv_bytes kvs ++ rest) acc = Ok (tag acc kvs).
Proof.
  induction kvs as [|p kvs IH]; intros fuel acc rest Hwf Hf; [destruct fuel; reflexivity|].
  inversion Hwf as [|? ? [W1 W2] Hwf']; subst. destruct fuel as [|f]; [cbn [length] in Hf; lia|].
  cbn [flat_map parse_pairs tag]. pose proof (len_nonneg (snd p)). pose proof (len_nonneg (flat_map kv_bytes kvs)).
  assert (L : len (kv_bytes p) = 12 + len (snd p)) by (unfold kv_bytes; rewrite !len_app, len_u64, len_u32; lia).
  rewrite len_app, L. replace (12 + len (snd p) + len (flat_map kv_bytes kvs) <=? 0) with false by lia.
  unfold kv_bytes at 1. rewrite <- !app_assoc. rewrite read_u64_enc by lia. cbn [bind]. rewrite read_u32_enc by exact W1. cbn [bind].
  replace (len (snd p) + 4 - 4) with (len (snd p)) by lia. replace (9223372036854775807 <? len (snd p)) with false by lia.
  replace (len (snd p) <? 0) with false by lia.
  rewrite takez_app, dropz_app. replace (12 + len (snd p) + len (flat_map kv_bytes kvs) - 12 - len (snd p)) with (len (flat_map kv_bytes kvs)) by lia.
  apply IH; [assumption | cbn [length] in Hf; lia].
Qed.

(* what the tagged list says: ids and values in order, a flag iff the id was seen before *)
Lemma tag_contents : forall kvs seen, map (fun q => (p_id q, p_data q)) (tag seen kvs) = map (fun q => (p_id q, p_data q)) seen ++ kvs.
Proof.
  induction kvs as [|[k v] kvs IH]; intros seen; cbn [tag]; [now rewrite app_nil_r|]. rewrite IH, map_app. cbn [map p_id p_data fst snd].
  now rewrite <- app_assoc.
Qed.
Lemma has_id_spec ps id : has_id ps id = existsb (fun p : kv => fst p =? id) (map (fun q => (p_id q, p_data q)) ps).
Proof. unfold has_id. induction ps as [|q ps IH]; [reflexivity|]. cbn [existsb map fst]. now rewrite IH. Qed.
Lemma first_with_spec ps id :
  first_with ps id = option_map snd (find (fun p : kv => fst p =? id) (map (fun q => (p_id q, p_data q)) ps)).
Proof.
  unfold first_with. induction ps as [|q ps IH]; [reflexivity|]. cbn [find map fst]. destruct (p_id q =? id); [reflexivity | exact IH].
Qed.
(* presence flag = some pair has the id; the block that is parsed = the value of the first such pair *)
Theorem flags_and_selection kvs id :
  has_id (tag [] kvs) id = existsb (fun p : kv => fst p =? id) kvs /\
  first_with (tag [] kvs) id = option_map snd (find (fun p : kv => fst p =? id) kvs).
Proof. rewrite has_id_spec, first_with_spec, tag_contents. cbn [map app]. auto. Qed.

Fixpoint dup_from (seen : list Z) (ks : list Z) : bool :=
  match ks with [] => false | k :: r => existsb (Z.eqb k) seen || dup_from (seen ++ [k]) r end.
Lemma tag_dups : forall kvs seen,
  existsb p_dup (tag seen kvs) = existsb p_dup seen || dup_from (map p_id seen) (map fst kvs).
Proof.
  induction kvs as [|[k v] kvs IH]; intros seen; cbn [tag map dup_from fst]; [now rewrite orb_false_r|].
  rewrite IH, existsb_app, map_app. cbn [existsb map p_dup p_id]. rewrite orb_false_r, orb_assoc. f_equal. f_equal.
  induction seen as [|q seen IHs]; [reflexivity|]. cbn [existsb map]. rewrite IHs. f_equal. apply Z.eqb_sym.
Qed.
Lemma NoDup_snoc {A} (l : list A) x : NoDup l -> ~ In x l -> NoDup (l ++ [x]).
Proof.
  induction 1 as [|y l Hy Hl IH]; intros Hx; cbn [app]; [constructor; [intros []|constructor]|].
  constructor; [|apply IH; intros X; apply Hx; now right]. intros Hin. apply in_app_or in Hin as [Hin|[->|[]]]; [contradiction|].
  apply Hx. now left.
Qed.
Lemma dup_from_spec : forall ks seen, NoDup seen -> (dup_from seen ks = false <-> NoDup (seen ++ ks)).
Proof.
  induction ks as [|k ks IH]; intros seen Hs; cbn [dup_from]; [rewrite app_nil_r; tauto|].
  rewrite orb_false_iff. split.
  - intros [H1 H2]. assert (Hk : ~ In k seen).
    { intros Hin. assert (X : existsb (Z.eqb k) seen = true) by (apply existsb_exists; exists k; split; [exact Hin | apply Z.eqb_refl]). congruence. }
    assert (Hs' : NoDup (seen ++ [k])) by (apply NoDup_snoc; auto).
    apply (IH _ Hs') in H2. now rewrite <- app_assoc in H2.
  - intros H. assert (Hk : ~ In k seen).
    { intros Hin. apply NoDup_remove_2 in H. apply H. apply in_or_app. now left. }
    split.
    + destruct (existsb (Z.eqb k) seen) eqn:E; [|reflexivity]. apply existsb_exists in E as (y & Hy & Ey). apply Z.eqb_eq in Ey. subst. contradiction.
    + apply IH; [apply NoDup_snoc; auto | now rewrite <- app_assoc].
Qed.
Theorem duplicates_flagged kvs : existsb p_dup (tag [] kvs) = false <-> NoDup (map fst kvs).
Proof. rewrite tag_dups. cbn [existsb map orb]. apply (dup_from_spec (map fst kvs) []). constructor. Qed.
