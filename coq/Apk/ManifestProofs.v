(* C31 - proofs about coq/Apk/ManifestModel.v *)
From Coq Require Import ZArith List Bool Lia ZifyBool.
Require Import V.Lib.Val V.Lib.Result V.Axml.PoolModel V.Axml.AxmlModel V.Apk.ManifestModel.
Import ListNotations.
Open Scope Z_scope.

Lemma str_eqb_eq a b : str_eqb a b = true <-> a = b.
Proof.
  unfold str_eqb. revert b; induction a as [|x a IH]; intros [|y b]; cbn [list_eqb]; try (split; [discriminate|discriminate]); [tauto|].
  rewrite andb_true_iff, Z.eqb_eq, IH. split; [intros [-> ->]; reflexivity | intros E; injection E as -> ->; auto].
Qed.

(* ---------------------------------------------------------------- component names *)
Definition has_dot (s : str) : bool := existsb (Z.eqb S_dot) s.
Lemma index_of_dot_spec : forall s i, 0 <= i ->
  (index_of_dot s i = -1 /\ has_dot s = false) \/ (i <= index_of_dot s i /\ has_dot s = true).
Proof.
  unfold has_dot, S_dot. induction s as [|c s IH]; intros i Hi; cbn [index_of_dot existsb]; [left; auto|]. unfold S_dot.
  destruct (c =? 46) eqn:E.
  - right. split; [lia|]. replace (46 =? c) with true by lia. reflexivity.
  - replace (46 =? c) with false by lia. cbn [orb]. destruct (IH (i + 1)) as [[A B]|[A B]]; [lia | left; auto | right; split; [lia | exact B]].
Qed.
Lemma index_of_dot_zero c s : index_of_dot (c :: s) 0 = 0 <-> c = S_dot.
Proof.
  cbn [index_of_dot]. unfold S_dot. destruct (c =? 46) eqn:E; [split; [lia | intros; reflexivity]|]. split; [|lia].
  destruct (index_of_dot_spec s (0 + 1)) as [[A _]|[A _]]; lia.
Qed.
(* Android's rule: a name that starts with a dot gets the package in front, a name without any dot gets package and a dot,
   every other name is left alone *)
Theorem format_value_rule p0 pr c v :
  format_value (Some (p0 :: pr)) (c :: v) =
  if c =? S_dot then (p0 :: pr) ++ c :: v else if has_dot (c :: v) then c :: v else (p0 :: pr) ++ [S_dot] ++ c :: v.
Proof.
  unfold format_value. destruct (c =? S_dot) eqn:E.
  - replace (index_of_dot (c :: v) 0 =? 0) with true; [reflexivity|]. symmetry. apply Z.eqb_eq, index_of_dot_zero. lia.
  - assert (N : index_of_dot (c :: v) 0 <> 0) by (rewrite index_of_dot_zero; lia).
    replace (index_of_dot (c :: v) 0 =? 0) with false by lia.
    destruct (index_of_dot_spec (c :: v) 0) as [[A B]|[A B]]; [lia | |]; rewrite B.
    + rewrite A. reflexivity.
    + replace (index_of_dot (c :: v) 0 =? -1) with false by lia. reflexivity.
Qed.
Theorem format_value_without_package v : format_value None v = v /\ format_value (Some []) v = v.
Proof. split; destruct v; reflexivity. Qed.
(* a completed name is not completed again *)
Theorem format_value_idempotent p0 pr v : p0 <> S_dot ->
  format_value (Some (p0 :: pr)) (format_value (Some (p0 :: pr)) v) = format_value (Some (p0 :: pr)) v.
Proof.
  intros Hp. destruct v as [|c v]; [reflexivity|]. rewrite format_value_rule. destruct (c =? S_dot) eqn:E.
  - cbn [app]. rewrite format_value_rule. replace (p0 =? S_dot) with false by lia.
    replace (has_dot (p0 :: pr ++ c :: v)) with true; [reflexivity|]. symmetry. unfold has_dot. apply existsb_exists. exists c. split; [|lia].
    right. apply in_or_app. right. now left.
  - destruct (has_dot (c :: v)) eqn:D.
    + rewrite format_value_rule, E, D. reflexivity.
    + cbn [app]. rewrite format_value_rule. replace (p0 =? S_dot) with false by lia.
      replace (has_dot (p0 :: pr ++ S_dot :: c :: v)) with true; [reflexivity|]. symmetry. unfold has_dot. apply existsb_exists. exists S_dot. split; [|lia].
      right. apply in_or_app. right. now left.
Qed.

(* ---------------------------------------------------------------- main activities *)
Theorem is_main_spec item :
  is_main item = true <->
  exists f, In f (findall item [105;110;116;101;110;116;45;102;105;108;116;101;114]) /\
            has_child_named f [97;99;116;105;111;110] S_MAIN = true /\ has_child_named f [99;97;116;101;103;111;114;121] S_LAUNCHER = true.
Proof.
  unfold is_main. rewrite existsb_exists. split; intros (f & Hf & H); exists f; (split; [exact Hf|]); [now apply andb_true_iff in H | now apply andb_true_iff].
Qed.
Theorem main_activities_exact root n :
  In n (main_activities root) <->
  exists item, In item (findall root [97;99;116;105;118;105;116;121] ++ findall root [97;99;116;105;118;105;116;121;45;97;108;105;97;115]) /\
               get item (ns [101;110;97;98;108;101;100]) <> Some S_false /\ is_main item = true /\ get_or item [110;97;109;101] = Some n.
Proof.
  unfold main_activities. rewrite in_flat_map. split.
  - intros (item & Hi & H). exists item. split; [exact Hi|].
    destruct (get item (ns [101;110;97;98;108;101;100])) as [v|] eqn:Eg.
    + destruct (str_eqb v S_false) eqn:Ev; [contradiction|]. destruct (is_main item); [|contradiction].
      destruct (get_or item [110;97;109;101]) as [m|]; [|contradiction]. destruct H as [<-|[]].
      split; [|auto]. intros X. injection X as ->. assert (Y : str_eqb S_false S_false = true) by now apply str_eqb_eq. congruence.
    + destruct (is_main item); [|contradiction]. destruct (get_or item [110;97;109;101]) as [m|]; [|contradiction]. destruct H as [<-|[]].
      split; [discriminate | auto].
  - intros (item & Hi & He & Hm & Hn). exists item. split; [exact Hi|]. rewrite Hm, Hn.
    destruct (get item (ns [101;110;97;98;108;101;100])) as [v|]; [|now left].
    destruct (str_eqb v S_false) eqn:Ev; [apply str_eqb_eq in Ev; subst; congruence | now left].
Qed.

(* ---------------------------------------------------------------- permissions without duplicates *)
Lemma dedup_in l x : In x (dedup l) <-> In x l.
Proof.
  induction l as [|y l IH]; [tauto|]. cbn [dedup]. destruct (existsb (str_eqb y) l) eqn:E.
  - rewrite IH. split; [now right|]. intros [<-|H]; [|exact H]. apply existsb_exists in E as (z & Hz & Ez). apply str_eqb_eq in Ez. now subst.
  - cbn [In]. rewrite IH. tauto.
Qed.
Theorem dedup_nodup l : NoDup (dedup l).
Proof.
  induction l as [|y l IH]; [constructor|]. cbn [dedup]. destruct (existsb (str_eqb y) l) eqn:E; [exact IH|]. constructor; [|exact IH].
  rewrite dedup_in. intros H. assert (X : existsb (str_eqb y) l = true) by (apply existsb_exists; exists y; split; [exact H | now apply str_eqb_eq]). congruence.
Qed.
Theorem permissions_exact root p :
  In p (dedup (m_permissions (analyse root))) <->
  exists e, In e (find_tags root [117;115;101;115;45;112;101;114;109;105;115;115;105;111;110]) /\ get_or e [110;97;109;101] = Some p.
Proof.
  rewrite dedup_in. cbn [analyse m_permissions]. unfold all_attr. rewrite in_flat_map. split; intros (e & He & H); exists e; (split; [exact He|]).
  - destruct (get_or e [110;97;109;101]) as [v|]; [destruct H as [<-|[]]; reflexivity | contradiction].
  - rewrite H. now left.
Qed.

(* ---------------------------------------------------------------- effective target SDK *)
Theorem effective_sdk_cases root :
  let m := analyse root in
  (forall c r k, m_target m = Some (c :: r) -> parse_int (c :: r) = Some k -> m_effective m = k) /\
  (forall v k, (m_target m = None \/ m_target m = Some []) -> m_min m = Some v -> parse_int v = Some k -> m_effective m = k) /\
  ((m_target m = None \/ m_target m = Some []) -> m_min m = None -> m_effective m = 1).
Proof.
  cbv zeta. cbn [analyse m_target m_min m_effective]. repeat split.
  - intros c r k -> E. now rewrite E.
  - intros v k [-> | ->] -> E; now rewrite E.
  - intros [-> | ->] ->; reflexivity.
Qed.

(* ---------------------------------------------------------------- from the bytes (composition with C26) *)
Require V.Axml.PoolProofs V.Axml.AxmlDocument V.Axml.AxmlAttrs.
Lemma queries_from_bytes (utf8_flag : bool) ss padding sysattr ids decls t :
  Forall (PoolProofs.fits utf8_flag) ss -> Z.of_nat (length ss) < NONE -> AxmlAttrs.wf_res ids -> Forall AxmlAttrs.wf_decl decls ->
  AxmlAttrs.wf_atree ss sysattr ids t -> AxmlAttrs.atail t = NONE ->
  28 + 4 * Z.of_nat (length ss) + PoolModel.len (concat (map (if utf8_flag then PoolProofs.entry8 else PoolProofs.entry16) ss)) < 4294967296 ->
  PoolModel.len (AxmlDocument.doc_bytes utf8_flag ss padding (AxmlDocument.IResMap ids :: AxmlAttrs.adoc_items decls t)) < 4294967296 ->
  option_map analyse (match parse_axml sysattr (AxmlDocument.doc_bytes utf8_flag ss padding (AxmlDocument.IResMap ids :: AxmlAttrs.adoc_items decls t)) with Ok r => r | Err _ => None end)
  = Some (analyse (AxmlAttrs.atree_of ss sysattr ids decls t)).
Proof.
  intros H1 H2 H3 H4 H5 H6 H7 H8.
  rewrite (AxmlAttrs.manifest_document_round_trip utf8_flag ss padding sysattr ids decls t H1 H2 H3 H4 H5 H6 H7 H8). reflexivity.
Qed.
