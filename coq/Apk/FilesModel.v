(* C34 - hand-written model of APK.get_files / get_file / get_dex_names / get_all_dex / is_multidex
   (androguard/core/apk/__init__.py).  The archive is the list of (name, uncompressed content) pairs
   in central-directory order that the zip reader (apkInspector) delivers; a name is a list of code
   points, a content a list of bytes.  The two regular expressions are written as list functions.
   Tied to the source by tools/props/c34.py. *)
From Coq Require Import ZArith List Bool.
Require Import V.Lib.Val V.Lib.Result.
Import ListNotations.
Open Scope Z_scope.

Definition archive := list (list Z * list Z).

Definition str_eqb (a b : list Z) : bool := list_eqb Z.eqb a b.
Fixpoint starts_with (p s : list Z) : bool :=
  match p, s with
  | [], _ => true
  | a :: p', b :: s' => (a =? b) && starts_with p' s'
  | _ :: _, [] => false
  end.
Fixpoint drop_digits (s : list Z) : list Z :=
  match s with c :: t => if (48 <=? c) && (c <=? 57) then drop_digits t else s | [] => [] end.

Definition S_CLASSES := [99; 108; 97; 115; 115; 101; 115].      (* 'classes' *)
Definition S_DOTDEX := [46; 100; 101; 120].                     (* '.dex' *)

(* get_dex_names: re.match with the pattern  ^classes  zero-or-more ASCII digits (a group)  \.dex\Z *)
Definition dex_match (name : list Z) : bool :=
  starts_with S_CLASSES name && str_eqb (drop_digits (skipn 7 name)) S_DOTDEX.
(* is_multidex: re.search with the pattern  ^classes  optional group of one-or-more ASCII digits  \.dex\Z : the anchor allows position 0 only; the optional
   greedy group takes every digit (giving digits back cannot help: the escaped dot would have to match a digit) *)
Definition dex_search (name : list Z) : bool :=
  starts_with S_CLASSES name &&
  match skipn 7 name with
  | c :: t => if (48 <=? c) && (c <=? 57) then str_eqb (drop_digits t) S_DOTDEX else str_eqb (c :: t) S_DOTDEX
  | [] => false
  end.

Definition get_files (a : archive) : list (list Z) := map fst a.
Definition get_file (a : archive) (name : list Z) : result (list Z) :=
  match find (fun e => str_eqb (fst e) name) a with
  | Some e => Ok (snd e)
  | None => Err FileNotPresent
  end.
Definition get_dex_names (a : archive) : list (list Z) := filter dex_match (get_files a).
Definition get_all_dex (a : archive) : list (result (list Z)) := map (get_file a) (get_dex_names a).
Definition is_multidex (a : archive) : bool := (1 <? Z.of_nat (length (filter dex_search (get_files a)))).

(* observation: (archive, names asked for) *)
Definition obs_apk (i : archive * list (list Z)) : val :=
  let '(a, asks) := i in
  VList [VList (map VStr (get_files a));
         VList (map (fun n => vres VStr (get_file a n)) asks);
         VList (map VStr (get_dex_names a));
         VList (map (vres VStr) (get_all_dex a));
         VB (is_multidex a)].
Definition obs_name (n : list Z) : val := VList [VB (dex_match n); VB (dex_search n)].
