(* C31 - hand-written model of the manifest queries of APK (androguard/core/apk/__init__.py): _apk_analysis, _format_value,
   find_tags / find_tags_from_xml / get_all_attribute_value / get_attribute_value / get_value_from_tag,
   _get_permission_maxsdk, get_main_activities / get_main_activity, the component, SDK, feature and library getters.
   The manifest is the element tree AXMLPrinter delivers (coq/Axml/AxmlModel.v: tag "{uri}name", attributes in order).
   lxml's findall returns document order; the code collects the matches in a set, so lists are compared as sorted lists.
   Tied to the source by tools/props/c31.py. *)
From Coq Require Import ZArith List Bool.
Require Import V.Lib.Val V.Lib.Result V.Axml.PoolModel V.Axml.AxmlModel.
Import ListNotations.
Open Scope Z_scope.

Definition NS_ANDROID : str := [123; 104; 116; 116; 112; 58; 47; 47; 115; 99; 104; 101; 109; 97; 115; 46; 97; 110; 100; 114; 111; 105; 100; 46; 99; 111; 109; 47; 97; 112; 107; 47; 114; 101; 115; 47; 97; 110; 100; 114; 111; 105; 100; 125].
Definition ns (a : str) : str := NS_ANDROID ++ a.
Definition tag_of (x : xml) : str := match x with El t _ _ _ _ _ => t end.
Definition attrs_of (x : xml) : list (str * str) := match x with El _ _ a _ _ _ => a end.
Definition kids_of (x : xml) : list xml := match x with El _ _ _ _ k _ => k end.
Definition get (x : xml) (a : str) : option str := assoc_str a (attrs_of x).
(* tag.get(ns(a)) or tag.get(a): an empty string counts as missing on the left *)
Definition get_or (x : xml) (a : str) : option str :=
  match get x (ns a) with Some (c :: r) => Some (c :: r) | _ => get x a end.
(* get_value_from_tag: the prefixed attribute unless it is absent *)
Definition value_from_tag (x : xml) (a : str) : option str := match get x (ns a) with Some v => Some v | None => get x a end.

(* every element below x, in document order (x itself excluded): xml.findall(".//...") *)
Fixpoint descendants (x : xml) : list xml :=
  match x with El _ _ _ _ kids _ => flat_map (fun k => k :: descendants k) kids end.
Definition findall (x : xml) (tag : str) : list xml := filter (fun e => str_eqb (tag_of e) tag) (descendants x).
(* find_tags: the root itself when it has that tag, else all descendants named tag or {android}tag *)
Definition find_tags (root : xml) (tag : str) : list xml :=
  if str_eqb (tag_of root) tag then [root] else findall root tag ++ findall root (ns tag).

Definition S_package : str := [112; 97; 99; 107; 97; 103; 101].
Definition S_dot : Z := 46.
Fixpoint index_of_dot (s : str) (i : Z) : Z := match s with [] => -1 | c :: r => if c =? S_dot then i else index_of_dot r (i + 1) end.
(* _format_value: Android's completion of a component name with the package name *)
Definition format_value (package : option str) (v : str) : str :=
  match v, package with
  | _ :: _, Some (p0 :: pr) =>
      let d := index_of_dot v 0 in
      if d =? 0 then (p0 :: pr) ++ v else if d =? -1 then (p0 :: pr) ++ [S_dot] ++ v else v
  | _, _ => v
  end.
Definition all_attr (root : xml) (tag a : str) : list str :=
  flat_map (fun e => match get_or e a with Some v => [v] | None => [] end) (find_tags root tag).
Definition first_attr (root : xml) (tag a : str) : option str := hd_error (all_attr root tag a).

(* int(): an optional sign and ASCII digits, surrounding blanks ignored; None when it raises ValueError *)
Definition is_digit (c : Z) : bool := (48 <=? c) && (c <=? 57).
Fixpoint digits_val (s : str) (acc : Z) : option Z :=
  match s with [] => Some acc | c :: r => if is_digit c then digits_val r (acc * 10 + (c - 48)) else None end.
Definition parse_int (s : str) : option Z :=
  match strip s with
  | 45 :: (c :: r) => option_map Z.opp (digits_val (c :: r) 0)
  | 43 :: (c :: r) => digits_val (c :: r) 0
  | c :: r => digits_val (c :: r) 0
  | [] => None
  end.

Definition S_MAIN : str := [97; 110; 100; 114; 111; 105; 100; 46; 105; 110; 116; 101; 110; 116; 46; 97; 99; 116; 105; 111; 110; 46; 77; 65; 73; 78].
Definition S_LAUNCHER : str := [97; 110; 100; 114; 111; 105; 100; 46; 105; 110; 116; 101; 110; 116; 46; 99; 97; 116; 101; 103; 111; 114; 121; 46; 76; 65; 85; 78; 67; 72; 69; 82].
Definition S_false : str := [102; 97; 108; 115; 101].
Definition has_child_named (x : xml) (tag value : str) : bool :=
  existsb (fun e => match get e (ns [110; 97; 109; 101]) with Some v => str_eqb v value | None => false end) (findall x tag).
(* get_main_activities: the enabled activities and aliases with a MAIN action and a LAUNCHER category in one intent filter *)
Definition is_main (item : xml) : bool :=
  existsb (fun f => has_child_named f [97; 99; 116; 105; 111; 110] S_MAIN && has_child_named f [99; 97; 116; 101; 103; 111; 114; 121] S_LAUNCHER) (findall item [105; 110; 116; 101; 110; 116; 45; 102; 105; 108; 116; 101; 114]).
Definition main_activities (root : xml) : list str :=
  flat_map (fun item =>
    match get item (ns [101; 110; 97; 98; 108; 101; 100]) with
    | Some v => if str_eqb v S_false then [] else if is_main item then (match get_or item [110; 97; 109; 101] with Some n => [n] | None => [] end) else []
    | None => if is_main item then (match get_or item [110; 97; 109; 101] with Some n => [n] | None => [] end) else []
    end) (findall root [97; 99; 116; 105; 118; 105; 116; 121] ++ findall root [97; 99; 116; 105; 118; 105; 116; 121; 45; 97; 108; 105; 97; 115]).

(* sorting and duplicate removal (the code goes through sets) *)
Fixpoint str_leb (a b : str) : bool :=
  match a, b with [], _ => true | _ :: _, [] => false | x :: a', y :: b' => if x <? y then true else if y <? x then false else str_leb a' b' end.
Fixpoint ins_str (s : str) (l : list str) : list str := match l with [] => [s] | x :: r => if str_leb s x then s :: l else x :: ins_str s r end.
Definition sort_strs (l : list str) : list str := fold_right ins_str [] l.
Fixpoint dedup (l : list str) : list str := match l with [] => [] | x :: r => if existsb (str_eqb x) r then dedup r else x :: dedup r end.
(* get_main_activity: the only candidate; among several, the first in sorted order that is a declared activity, else the
   first in sorted order *)
Definition main_activity (root : xml) (package : option str) (activities : list str) : option str :=
  match dedup (main_activities root) with
  | [] => None
  | [a] => Some (format_value package a)
  | l => let ms := sort_strs (dedup (map (format_value package) l)) in
         match filter (fun mname => existsb (str_eqb mname) activities) ms with
         | g :: _ => Some g
         | [] => hd_error ms
         end
  end.

Record manifest := {
  m_package : option str; m_vcode : option str; m_vname : option str;
  m_permissions : list str; m_uses : list (option str * option Z);
  m_activities : list str; m_services : list str; m_receivers : list str; m_providers : list str;
  m_main : list str; m_main_one : option str; m_min : option str; m_target : option str; m_max : option str; m_effective : Z;
  m_features : list str; m_libraries : list str }.
Definition analyse (root : xml) : manifest :=
  let package := first_attr root [109; 97; 110; 105; 102; 101; 115; 116] S_package in
  let comp tag := map (format_value package) (all_attr root tag [110; 97; 109; 101]) in
  let target := first_attr root [117; 115; 101; 115; 45; 115; 100; 107] [116; 97; 114; 103; 101; 116; 83; 100; 107; 86; 101; 114; 115; 105; 111; 110] in
  let mn := first_attr root [117; 115; 101; 115; 45; 115; 100; 107] [109; 105; 110; 83; 100; 107; 86; 101; 114; 115; 105; 111; 110] in
  {| m_package := package;
     m_vcode := first_attr root [109; 97; 110; 105; 102; 101; 115; 116] [118; 101; 114; 115; 105; 111; 110; 67; 111; 100; 101]; m_vname := first_attr root [109; 97; 110; 105; 102; 101; 115; 116] [118; 101; 114; 115; 105; 111; 110; 78; 97; 109; 101];
     m_permissions := all_attr root [117; 115; 101; 115; 45; 112; 101; 114; 109; 105; 115; 115; 105; 111; 110] [110; 97; 109; 101];
     m_uses := map (fun e => (value_from_tag e [110; 97; 109; 101], match value_from_tag e [109; 97; 120; 83; 100; 107; 86; 101; 114; 115; 105; 111; 110] with Some v => parse_int v | None => None end))
                   (find_tags root [117; 115; 101; 115; 45; 112; 101; 114; 109; 105; 115; 115; 105; 111; 110]);
     m_activities := comp [97; 99; 116; 105; 118; 105; 116; 121]; m_services := comp [115; 101; 114; 118; 105; 99; 101]; m_receivers := comp [114; 101; 99; 101; 105; 118; 101; 114]; m_providers := comp [112; 114; 111; 118; 105; 100; 101; 114];
     m_main := main_activities root;
     m_main_one := main_activity root package (comp [97; 99; 116; 105; 118; 105; 116; 121]);
     m_min := mn; m_target := target; m_max := first_attr root [117; 115; 101; 115; 45; 115; 100; 107] [109; 97; 120; 83; 100; 107; 86; 101; 114; 115; 105; 111; 110];
     m_effective := (let t := match target with Some (c :: r) => Some (c :: r) | _ => mn end in
                     match t with Some v => (match parse_int v with Some k => k | None => 1 end) | None => 1 end);
     m_features := all_attr root [117; 115; 101; 115; 45; 102; 101; 97; 116; 117; 114; 101] [110; 97; 109; 101]; m_libraries := all_attr root [117; 115; 101; 115; 45; 108; 105; 98; 114; 97; 114; 121] [110; 97; 109; 101] |}.

(* ---- observation ---- *)
Definition vopt (o : option str) : val := match o with Some s => vlistZ s | None => VNone end.
Definition vstrs (l : list str) : val := VList (map vlistZ (sort_strs l)).
Definition obs_manifest (root : xml) : val :=
  let m := analyse root in
  VList [vopt (m_package m); vopt (m_vcode m); vopt (m_vname m); vstrs (dedup (m_permissions m));
         vstrs (map (fun p => match fst p with Some s => s | None => [] end ++ [0] ++ match snd p with Some k => [1; k] | None => [0] end) (m_uses m));
         vstrs (m_activities m); vstrs (m_services m); vstrs (m_receivers m); vstrs (m_providers m); vstrs (dedup (m_main m)); vopt (m_main_one m);
         vopt (m_min m); vopt (m_target m); vopt (m_max m); VZ (m_effective m); vstrs (m_features m); vstrs (m_libraries m)].
