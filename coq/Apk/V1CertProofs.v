(* C32 - proofs about coq/Apk/V1CertModel.v: a certificate is reported only for a SignerInfo that was tried, refers to it and
   whose signature it verifies *)
From Coq Require Import ZArith List Bool Lia ZifyBool.
Require Import V.Lib.Val V.Lib.Result V.Apk.V1CertModel.
Import ListNotations.
Open Scope Z_scope.

Definition sdk_checks_ct (max_sdk : option Z) : bool := match max_sdk with Some v => negb (v <? 24) | None => true end.
Definition to_try (min_sdk : option Z) (infos : list sinfo) : list sinfo :=
  match infos with [] => [] | first :: _ => match min_sdk with Some v => if v <? 24 then [first] else infos | None => [first] end end.

(* what it means that SignerInfo s vouches for the certificate with DER identity d *)
Definition accepts (certs : list cert) (encap_ct : Z) (max_sdk : option Z) (s : sinfo) (d : Z) : Prop :=
  exists j c, nth_error certs j = Some c /\ refers_to s c = true /\ (forall i c', (i < j)%nat -> nth_error certs i = Some c' -> refers_to s c' = false) /\
    c_der c = d /\ s_alg_ok s = true /\
    ((s_attrs s = [] /\ nth j (s_vsf s) VErr_ = VOk) \/
     (s_attrs s <> [] /\ has_dup (s_attrs s) = false /\ assoc OID_MD (s_attrs s) = Some (s_sf_digest s) /\ nth j (s_vattrs s) VErr_ = VOk /\
      (sdk_checks_ct max_sdk = true -> assoc OID_CT (s_attrs s) = Some encap_ct))).

Lemma find_certificate_spec : forall certs s k j c, find_certificate certs s k = Some (j, c) ->
  (k <= j)%nat /\ nth_error certs (j - k) = Some c /\ refers_to s c = true /\
  (forall i c', (i < j - k)%nat -> nth_error certs i = Some c' -> refers_to s c' = false).
Proof.
  induction certs as [|c0 certs IH]; intros s k j c H; cbn [find_certificate] in H; [discriminate|].
  destruct (refers_to s c0) eqn:E.
  - injection H as <- <-. replace (k - k)%nat with 0%nat by lia. repeat split; auto. intros i c' Hi; lia.
  - apply IH in H as (H1 & H2 & H3 & H4). split; [lia|]. replace (j - k)%nat with (S (j - S k)) by lia. repeat split; auto.
    intros [|i] c' Hi Hn; cbn [nth_error] in Hn; [now injection Hn as <- | apply (H4 i); [lia | exact Hn]].
Qed.
Lemma find_certificate_none : forall certs s k, find_certificate certs s k = None <-> (forall c, In c certs -> refers_to s c = false).
Proof.
  induction certs as [|c0 certs IH]; intros s k; cbn [find_certificate]; [split; [intros _ c [] | auto]|].
  destruct (refers_to s c0) eqn:E.
  - split; [discriminate|]. intros H. specialize (H c0 (or_introl eq_refl)). congruence.
  - rewrite IH. split; [intros H c [<-|Hc]; auto | intros H c Hc; apply H; now right].
Qed.
Lemma of_vres_some v c d : of_vres v c = Ok (Some d) -> v = VOk /\ c_der c = d.
Proof. destruct v; cbn; intros H; try discriminate. now injection H as <-. Qed.

Theorem verify_signer_sound certs ct mx s d : verify_signer certs ct mx s = Ok (Some d) -> accepts certs ct mx s d.
Proof.
  unfold verify_signer. intros H. destruct (s_alg_ok s) eqn:Ea; cbn [negb] in H; [|discriminate].
  destruct (find_certificate certs s 0) as [[j c]|] eqn:Ef; [|discriminate].
  apply find_certificate_spec in Ef as (_ & Hn & Hr & Hfirst). replace (j - 0)%nat with j in * by lia.
  destruct (s_attrs s) as [|a0 ar] eqn:Eattrs.
  - apply of_vres_some in H as [Hv Hd]. exists j, c. repeat split; auto.
  - destruct (has_dup (a0 :: ar)) eqn:Edup; [discriminate|].
    assert (Hct : sdk_checks_ct mx = true -> assoc OID_CT (a0 :: ar) = Some ct /\
                  exists md, assoc OID_MD (a0 :: ar) = Some md /\ (if md =? s_sf_digest s then of_vres (nth j (s_vattrs s) VErr_) c else Ok None) = Ok (Some d)).
    { intros Hs. assert (X : (do ok <- match assoc OID_CT (a0 :: ar) with None => Err ValueError | Some ct0 => Ok (ct0 =? ct) end;
                              if negb ok then Ok None else match assoc OID_MD (a0 :: ar) with None => Err ValueError
                                | Some md => if md =? s_sf_digest s then of_vres (nth j (s_vattrs s) VErr_) c else Ok None end) = Ok (Some d)).
      { destruct mx as [v|]; [|exact H]. cbn [sdk_checks_ct] in Hs. destruct (v <? 24); [discriminate | exact H]. }
      destruct (assoc OID_CT (a0 :: ar)) as [ct0|]; [|discriminate]. cbn [bind] in X. destruct (ct0 =? ct) eqn:Ec; cbn [negb] in X; [|discriminate].
      split; [f_equal; lia|]. destruct (assoc OID_MD (a0 :: ar)) as [md|]; [|discriminate]. exists md. split; [reflexivity | exact X]. }
    assert (Hmd : exists md, assoc OID_MD (a0 :: ar) = Some md /\ (if md =? s_sf_digest s then of_vres (nth j (s_vattrs s) VErr_) c else Ok None) = Ok (Some d)).
    { destruct (sdk_checks_ct mx) eqn:Es; [exact (proj2 (Hct eq_refl))|]. destruct mx as [v|]; [|discriminate]. cbn [sdk_checks_ct] in Es.
      destruct (v <? 24); [|discriminate]. cbn [bind negb] in H. destruct (assoc OID_MD (a0 :: ar)) as [md|]; [|discriminate]. exists md. split; [reflexivity | exact H]. }
    destruct Hmd as (md & Em & Hv). destruct (md =? s_sf_digest s) eqn:Ed; [|discriminate]. apply of_vres_some in Hv as [Hv Hd].
    unfold accepts. rewrite Eattrs. exists j, c. split; [exact Hn|]. split; [exact Hr|]. split; [exact Hfirst|]. split; [exact Hd|]. split; [exact Ea|]. right.
    split; [discriminate|]. split; [exact Edup|]. split; [rewrite Em; f_equal; lia|]. split; [exact Hv|]. intros Hs. exact (proj1 (Hct Hs)).
Qed.

Lemma collect_sound certs ct mx : forall l ds, collect certs ct mx l = Some ds -> forall d, In d ds -> exists s, In s l /\ accepts certs ct mx s d.
Proof.
  induction l as [|s l IH]; intros ds H d Hd; cbn [collect] in H; [injection H as <-; destruct Hd|].
  destruct (verify_signer certs ct mx s) as [o|e] eqn:Ev; [|discriminate]. destruct (collect certs ct mx l) as [rest|] eqn:Ec; [|discriminate].
  injection H as <-. destruct o as [d0|].
  - destruct Hd as [<-|Hd]; [exists s; split; [now left | now apply verify_signer_sound] | destruct (IH rest eq_refl d Hd) as (s' & Hs & Ha); exists s'; split; [now right | exact Ha]].
  - destruct (IH rest eq_refl d Hd) as (s' & Hs & Ha). exists s'. split; [now right | exact Ha].
Qed.
(* C32: a reported certificate is vouched for by one of the SignerInfos that were tried *)
Theorem reported_certificate_verifies certs ct mn mx infos d :
  get_certificate_der certs ct mn mx infos = Some d -> exists s, In s (to_try mn infos) /\ accepts certs ct mx s d.
Proof.
  unfold get_certificate_der, to_try. destruct infos as [|first rest]; [discriminate|]. intros H.
  set (l := match mn with Some v => if v <? 24 then [first] else first :: rest | None => [first] end) in *.
  destruct (collect certs ct mx l) as [[|d0 ds]|] eqn:Ec; try discriminate. injection H as ->.
  exact (collect_sound certs ct mx l (d :: ds) Ec d (or_introl eq_refl)).
Qed.
(* only SignerInfos of the block are tried, and the first one always is *)
Lemma to_try_incl mn infos s : In s (to_try mn infos) -> In s infos.
Proof. unfold to_try. destruct infos as [|f r]; [tauto|]. destruct mn as [v|]; [destruct (v <? 24)|]; intros H; auto; destruct H as [<-|[]]; now left. Qed.

(* the contrapositive forms named in the property: an altered reference, signature, .SF or attribute set reports nothing *)
Theorem altered_reference_reports_nothing certs ct mn mx infos :
  (forall s c, In s infos -> In c certs -> refers_to s c = false) -> get_certificate_der certs ct mn mx infos = None.
Proof.
  intros H. destruct (get_certificate_der certs ct mn mx infos) as [d|] eqn:E; [|reflexivity].
  apply reported_certificate_verifies in E as (s & Hs & j & c & Hn & Hr & _). apply to_try_incl in Hs. apply nth_error_In in Hn. rewrite (H s c Hs Hn) in Hr. discriminate.
Qed.
Theorem altered_signature_reports_nothing certs ct mn mx infos :
  (forall s j, In s infos -> (s_attrs s = [] -> nth j (s_vsf s) VErr_ <> VOk) /\ (s_attrs s <> [] -> nth j (s_vattrs s) VErr_ <> VOk)) ->
  get_certificate_der certs ct mn mx infos = None.
Proof.
  intros H. destruct (get_certificate_der certs ct mn mx infos) as [d|] eqn:E; [|reflexivity].
  apply reported_certificate_verifies in E as (s & Hs & j & c & _ & _ & _ & _ & _ & [[A B]|(A & _ & _ & B & _)]); apply to_try_incl in Hs; destruct (H s j Hs) as [H1 H2]; tauto.
Qed.
Theorem altered_sf_reports_nothing certs ct mn mx infos :
  (forall s, In s infos -> s_attrs s <> [] /\ assoc OID_MD (s_attrs s) <> Some (s_sf_digest s)) -> get_certificate_der certs ct mn mx infos = None.
Proof.
  intros H. destruct (get_certificate_der certs ct mn mx infos) as [d|] eqn:E; [|reflexivity].
  apply reported_certificate_verifies in E as (s & Hs & j & c & _ & _ & _ & _ & _ & [[A B]|(A & _ & B & _)]); apply to_try_incl in Hs; destruct (H s Hs) as [H1 H2]; tauto.
Qed.
(* completeness for the ordinary case: one SignerInfo, good signature, nothing raises *)
Theorem good_single_signer_is_reported certs ct mn mx s d : accepts certs ct mx s d -> has_dup (s_attrs s) = false ->
  (s_attrs s <> [] -> assoc OID_CT (s_attrs s) = Some ct) -> get_certificate_der certs ct mn mx [s] = Some d.
Proof.
  intros (j & c & Hn & Hr & Hfirst & Hd & Ha & Hv) Hdup Hct.
  assert (Ef : forall k, find_certificate certs s k = Some ((k + j)%nat, c)).
  { clear Hv Hd. revert j Hn Hfirst. induction certs as [|c0 certs IH]; intros j Hn Hfirst k; [destruct j; discriminate|]. cbn [find_certificate]. destruct j as [|j].
    - cbn [nth_error] in Hn. injection Hn as ->. rewrite Hr. f_equal. f_equal. lia.
    - rewrite (Hfirst 0%nat c0) by (cbn; auto; lia). cbn [nth_error] in Hn. rewrite (IH j Hn); [f_equal; f_equal; lia|].
      intros i c' Hi Hc. apply (Hfirst (S i) c'); [lia | exact Hc]. }
  assert (V : verify_signer certs ct mx s = Ok (Some d)).
  { unfold verify_signer. rewrite Ha, (Ef 0%nat). cbn [negb Nat.add]. destruct Hv as [[A B]|(A & _ & Em & B & C)].
    - rewrite A, B. cbn. now rewrite Hd.
    - destruct (s_attrs s) as [|a0 ar] eqn:Eat; [congruence|]. rewrite Hdup. rewrite (Hct ltac:(discriminate)), Em.
      replace (ct =? ct) with true by lia. replace (s_sf_digest s =? s_sf_digest s) with true by lia. rewrite B.
      destruct mx as [v|]; [destruct (v <? 24)|]; cbn; now rewrite Hd. }
  unfold get_certificate_der. replace (match mn with Some v => if v <? 24 then [s] else [s] | None => [s] end) with [s] by (destruct mn as [v|]; [destruct (v <? 24)|]; reflexivity).
  cbn [collect]. rewrite V. reflexivity.
Qed.
