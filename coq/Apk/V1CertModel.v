(* C32 - hand-written model of the decision logic of APK.get_certificate_der, verify_signer_info_against_sig_file and
   find_certificate (androguard/core/apk/__init__.py).  The cryptographic primitives are parameters: `verify k` is the
   outcome of checking signer k's signature value with the public key of its referenced certificate over the data the
   code hands to it (the .SF file, or the re-tagged signed attributes), `sf_digest k` identifies the digest of the .SF
   under signer k's digest algorithm.  Names, serial numbers, digests and certificates are identified by numbers.
   Tied to the source by tools/props/c32.py. *)
From Coq Require Import ZArith List Bool.
Require Import V.Lib.Val V.Lib.Result.
Import ListNotations.
Open Scope Z_scope.

Inductive vres := VOk | VBad | VErr_.            (* verified; InvalidSignature; another exception (ValueError ...) *)
Record cert := { c_issuer : Z; c_serial : Z; c_der : Z; c_is_cert : bool }.     (* c_is_cert: the choice 'certificate' *)
Definition OID_CT : Z := 3.   Definition OID_MD : Z := 4.                       (* 1.2.840.113549.1.9.3 / .4 *)
Record sinfo := {
  s_issuer : Z; s_serial : Z;
  s_alg_ok : bool;                               (* the digest algorithm is one of md5 .. sha512 *)
  s_attrs : list (Z * Z);                        (* signed attributes (oid, first value); [] = absent *)
  s_sf_digest : Z;                               (* the digest of the .SF under this signer's algorithm *)
  s_vsf : list vres; s_vattrs : list vres }.     (* per certificate of the bag: the signature checked over the .SF / the attributes *)

Definition refers_to (s : sinfo) (c : cert) : bool := c_is_cert c && (c_issuer c =? s_issuer s) && (c_serial c =? s_serial s).
Fixpoint find_certificate (certs : list cert) (s : sinfo) (j : nat) : option (nat * cert) :=
  match certs with [] => None | c :: r => if refers_to s c then Some (j, c) else find_certificate r s (S j) end.
Fixpoint assoc (k : Z) (l : list (Z * Z)) : option Z := match l with [] => None | (a, b) :: r => if a =? k then Some b else assoc k r end.
Fixpoint has_dup (l : list (Z * Z)) : bool := match l with [] => false | (a, _) :: r => existsb (fun p => fst p =? a) r || has_dup r end.
Definition of_vres (v : vres) (c : cert) : result (option Z) :=
  match v with VOk => Ok (Some (c_der c)) | VBad => Ok None | VErr_ => Err ValueError end.

(* verify_signer_info_against_sig_file: Ok (Some der) verified, Ok None not verified, Err = an exception *)
Definition verify_signer (certs : list cert) (encap_ct : Z) (max_sdk : option Z) (s : sinfo) : result (option Z) :=
  let m := find_certificate certs s 0 in
  if negb (s_alg_ok s) then Err ValueError else
  match m with
  | None => Err ValueError                         (* certificate referenced in SignerInfo not found *)
  | Some (j, c) =>
      match s_attrs s with
      | [] => of_vres (nth j (s_vsf s) VErr_) c
      | attrs =>
          if has_dup attrs then Err ValueError else
          let ct_ok :=
            match max_sdk with
            | Some v => if v <? 24 then Ok true else
                        match assoc OID_CT attrs with None => Err ValueError | Some ct => Ok (ct =? encap_ct) end
            | None => match assoc OID_CT attrs with None => Err ValueError | Some ct => Ok (ct =? encap_ct) end
            end in
          do ok <- ct_ok;
          if negb ok then Ok None else
          match assoc OID_MD attrs with
          | None => Err ValueError
          | Some md => if md =? s_sf_digest s then of_vres (nth j (s_vattrs s) VErr_) c else Ok None
          end
      end
  end.
(* the loop of get_certificate_der: an exception ends everything with None; otherwise the first verified certificate *)
Fixpoint collect (certs : list cert) (encap_ct : Z) (max_sdk : option Z) (l : list sinfo) : option (list Z) :=
  match l with
  | [] => Some []
  | s :: r => match verify_signer certs encap_ct max_sdk s with
              | Err _ => None
              | Ok o => match collect certs encap_ct max_sdk r with
                        | None => None
                        | Some rest => Some (match o with Some d => d :: rest | None => rest end)
                        end
              end
  end.
Definition get_certificate_der (certs : list cert) (encap_ct : Z) (min_sdk max_sdk : option Z) (infos : list sinfo) : option Z :=
  match infos with
  | [] => None
  | first :: _ =>
      let to_try := match min_sdk with Some v => if v <? 24 then [first] else infos | None => [first] end in
      match collect certs encap_ct max_sdk to_try with Some (d :: _) => Some d | _ => None end
  end.

Definition obs_v1 (x : (list cert * Z) * ((option Z * option Z) * list sinfo)) : val :=
  let '((certs, ct), ((mn, mx), infos)) := x in
  match get_certificate_der certs ct mn mx infos with Some d => VZ d | None => VNone end.
