(* C36 - every schedule of the single-insert protocol gives every process its own key. *)
From Coq Require Import ZArith List Bool Lia Permutation.
Require Import V.Lib.Val V.Lib.Result V.Session.SessionModel.
Import ListNotations.
Open Scope Z_scope.

Lemma fold_max_ge : forall l a, a <= fold_left Z.max l a /\ forall k, In k l -> k <= fold_left Z.max l a.
Proof.
  induction l as [|x l IH]; intros a; simpl; [split; [lia|intros k []]|].
  destruct (IH (Z.max a x)) as [H1 H2]. split; [lia|]. intros k [->|Hk]; [lia|apply H2, Hk].
Qed.
Lemma next_id_fresh : forall tbl, ~ In (next_id tbl) tbl.
Proof. intros tbl H. unfold next_id in H. destruct (fold_max_ge tbl 0) as [_ H2]. specialize (H2 _ H). lia. Qed.

Definition assigned (ps : list proc) : list Z :=
  flat_map (fun p => match sid p with Some k => [k] | None => [] end) ps.
Definition fresh_proc := {| todo := PROTOCOL; sid := None; st := Running |}.
Definition proc_ok (tbl : list Z) (p : proc) : Prop :=
  p = fresh_proc \/ exists k, p = {| todo := []; sid := Some k; st := Done |} /\ In k tbl.
Definition Inv (s : state) : Prop :=
  NoDup (fst s) /\ Forall (proc_ok (fst s)) (snd s) /\ NoDup (assigned (snd s)) /\ incl (assigned (snd s)) (fst s).

Lemma nth_error_split_update : forall {A} (l : list A) i p (f : A -> A), nth_error l i = Some p ->
  exists l1 l2, l = l1 ++ p :: l2 /\ update l i f = l1 ++ f p :: l2 /\ length l1 = i.
Proof.
  induction l as [|x l IH]; intros i p f H; destruct i; simpl in H; try discriminate.
  - inversion H; subst. exists [], l. repeat split.
  - destruct (IH i p f H) as [l1 [l2 [E1 [E2 E3]]]]. exists (x :: l1), l2. simpl. rewrite <- E1, E2, E3. repeat split.
Qed.
Lemma assigned_app : forall a b, assigned (a ++ b) = assigned a ++ assigned b.
Proof. intros. unfold assigned. apply flat_map_app. Qed.

Lemma proc_ok_mono : forall tbl k p, proc_ok tbl p -> proc_ok (k :: tbl) p.
Proof. intros tbl k p [H|[j [H1 H2]]]; [left; exact H|right; exists j; split; [exact H1|right; exact H2]]. Qed.

Definition done_proc (k : Z) := {| todo := []; sid := Some k; st := Done |}.
Lemma exec_fresh : forall tbl, exec tbl fresh_proc = (next_id tbl :: tbl, done_proc (next_id tbl)).
Proof. reflexivity. Qed.
Lemma exec_done : forall tbl k, exec tbl (done_proc k) = (tbl, done_proc k).
Proof. reflexivity. Qed.
Lemma assigned_fresh : forall l, assigned (fresh_proc :: l) = assigned l.
Proof. reflexivity. Qed.
Lemma assigned_done : forall k l, assigned (done_proc k :: l) = k :: assigned l.
Proof. reflexivity. Qed.

Lemma step_inv : forall s i, Inv s -> Inv (step s i).
Proof.
  intros [tbl ps] i [H1 [H2 [H3 H4]]]. unfold step. cbn [fst snd] in *.
  destruct (nth_error ps i) as [p|] eqn:En; [|repeat split; assumption].
  assert (Hp : proc_ok tbl p). { rewrite Forall_forall in H2. apply H2. eapply nth_error_In. exact En. }
  destruct Hp as [->|[k [-> Hk]]].
  - (* the process performs its insert *)
    rewrite exec_fresh. set (k := next_id tbl). pose proof (next_id_fresh tbl) as Hf. fold k in Hf.
    destruct (nth_error_split_update ps i fresh_proc (fun _ => done_proc k) En) as [l1 [l2 [E1 [E2 _]]]].
    rewrite E2. subst ps. rewrite assigned_app, assigned_fresh in H3, H4.
    apply Forall_app in H2. destruct H2 as [Ha Hb]. inversion Hb as [|? ? _ Hb']; subst.
    repeat split; cbn [fst snd].
    + constructor; assumption.
    + apply Forall_app. split.
      * eapply Forall_impl; [|exact Ha]. intros q. apply proc_ok_mono.
      * constructor; [right; exists k; split; [reflexivity|left; reflexivity]|].
        eapply Forall_impl; [|exact Hb']. intros q. apply proc_ok_mono.
    + rewrite assigned_app, assigned_done. eapply Permutation_NoDup; [apply Permutation_middle|].
      constructor; [|exact H3]. intro Hin. apply Hf. apply H4. exact Hin.
    + rewrite assigned_app, assigned_done. intros x Hx. apply in_app_or in Hx. destruct Hx as [Hx|[<-|Hx]].
      * right. apply H4. apply in_or_app. left. exact Hx.
      * left. reflexivity.
      * right. apply H4. apply in_or_app. right. exact Hx.
  - (* a finished process: nothing happens *)
    fold (done_proc k) in *. rewrite exec_done.
    destruct (nth_error_split_update ps i (done_proc k) (fun _ => done_proc k) En) as [l1 [l2 [E1 [E2 _]]]].
    rewrite E2, <- E1. repeat split; assumption.
Qed.

Lemma init_inv : forall n, Inv (init PROTOCOL n).
Proof.
  intros n. unfold init, Inv. cbn [fst snd]. split; [constructor|]. split.
  - apply Forall_forall. intros p Hp. apply repeat_spec in Hp. left. exact Hp.
  - assert (E : assigned (repeat fresh_proc n) = []) by (induction n as [|n IH]; [reflexivity|exact IH]).
    change {| todo := PROTOCOL; sid := None; st := Running |} with fresh_proc. rewrite E. split; [constructor|intros x []].
Qed.
Lemma fold_inv : forall sched s, Inv s -> Inv (fold_left step sched s).
Proof. induction sched as [|i sched IH]; intros s H; [exact H|]. apply IH, step_inv, H. Qed.

(* lengths and completion *)
Lemma update_length : forall {A} (l : list A) i f, length (update l i f) = length l.
Proof. induction l as [|x l IH]; intros [|i] f; simpl; try reflexivity. now rewrite IH. Qed.
Lemma step_length : forall s i, length (snd (step s i)) = length (snd s).
Proof.
  intros [tbl ps] i. unfold step. cbn [fst snd]. destruct (nth_error ps i) as [p|]; [|reflexivity].
  destruct (exec tbl p) as [t' p']. cbn [snd]. apply update_length.
Qed.
Lemma nth_error_update_same : forall {A} (l : list A) i f p, nth_error l i = Some p -> nth_error (update l i f) i = Some (f p).
Proof. induction l as [|x l IH]; intros [|i] f p H; simpl in *; try discriminate; [inversion H; reflexivity|apply IH, H]. Qed.
Lemma nth_error_update_other : forall {A} (l : list A) i j f, i <> j -> nth_error (update l i f) j = nth_error l j.
Proof. induction l as [|x l IH]; intros [|i] [|j] f H; simpl; try reflexivity; try congruence. apply IH. congruence. Qed.

Definition done_at (s : state) (i : nat) : Prop := exists p, nth_error (snd s) i = Some p /\ st p = Done.

Lemma step_done_self : forall s i, Inv s -> (i < length (snd s))%nat -> done_at (step s i) i.
Proof.
  intros [tbl ps] i [_ [H2 _]] Hi. cbn [fst snd] in *. unfold step, done_at. cbn [fst snd].
  destruct (nth_error ps i) as [p|] eqn:En; [|apply nth_error_None in En; lia].
  assert (Hp : proc_ok tbl p). { rewrite Forall_forall in H2. apply H2. eapply nth_error_In. exact En. }
  destruct (exec tbl p) as [t' p'] eqn:Ee. cbn [snd]. exists p'. split; [apply (nth_error_update_same ps i (fun _ => p') p En)|].
  destruct Hp as [->|[k [-> _]]]; [rewrite exec_fresh in Ee|fold (done_proc k) in Ee; rewrite exec_done in Ee]; inversion Ee; reflexivity.
Qed.
Lemma step_done_keep : forall s i j, Inv s -> done_at s j -> done_at (step s i) j.
Proof.
  intros [tbl ps] i j [_ [H2 _]] [p [Hn Hd]]. cbn [fst snd] in *. unfold step, done_at. cbn [fst snd].
  destruct (nth_error ps i) as [q|] eqn:En; [|exists p; split; assumption].
  destruct (exec tbl q) as [t' q'] eqn:Ee. cbn [snd]. destruct (Nat.eq_dec i j) as [->|Hij].
  - rewrite Hn in En. inversion En; subst q. exists q'. split; [apply (nth_error_update_same ps j (fun _ => q') p Hn)|].
    unfold exec in Ee. rewrite Hd in Ee. inversion Ee; subst. exact Hd.
  - exists p. split; [|exact Hd]. rewrite nth_error_update_other by exact Hij. exact Hn.
Qed.
Lemma fold_done : forall sched s j, Inv s -> (j < length (snd s))%nat -> (In j sched \/ done_at s j) ->
  done_at (fold_left step sched s) j.
Proof.
  induction sched as [|i sched IH]; intros s j Hinv Hj H; cbn [fold_left].
  - destruct H as [[]|H]; exact H.
  - apply IH; [apply step_inv, Hinv|rewrite step_length; exact Hj|].
    destruct H as [[->|H]|H]; [right; apply step_done_self; assumption|left; exact H|right; apply step_done_keep; assumption].
Qed.

Lemma drain_covers : forall n j, (j < n)%nat -> In j (drain (length PROTOCOL) n).
Proof.
  intros n j Hj. unfold drain. apply in_flat_map. exists j. split; [apply in_seq; lia|]. left. reflexivity.
Qed.

Theorem all_schedules_ok : forall n sched,
  let s := run PROTOCOL n sched in
  length (snd s) = n /\
  Forall (fun p => st p = Done /\ exists k, sid p = Some k /\ In k (fst s)) (snd s) /\
  NoDup (assigned (snd s)) /\ length (assigned (snd s)) = n.
Proof.
  intros n sched s. unfold run in s.
  assert (Hinv : Inv s) by (apply fold_inv, init_inv).
  assert (Hlen : length (snd s) = n).
  { unfold s. generalize (sched ++ drain (length PROTOCOL) n) as l. intros l.
    assert (G : forall l s0, length (snd (fold_left step l s0)) = length (snd s0)).
    { induction l0 as [|i l0 IH]; intros s0; [reflexivity|]. cbn [fold_left]. rewrite IH. apply step_length. }
    rewrite G. unfold init. cbn [snd]. apply repeat_length. }
  assert (Hdone : forall j, (j < n)%nat -> done_at s j).
  { intros j Hj. apply fold_done; [apply init_inv|unfold init; cbn [snd]; rewrite repeat_length; exact Hj|].
    left. apply in_or_app. right. apply drain_covers, Hj. }
  destruct Hinv as [_ [H2 [H3 H4]]].
  assert (Hall : Forall (fun p => st p = Done /\ exists k, sid p = Some k /\ In k (fst s)) (snd s)).
  { apply Forall_forall. intros p Hp. apply In_nth_error in Hp. destruct Hp as [j Hj].
    assert (j < n)%nat by (rewrite <- Hlen; apply nth_error_Some; congruence).
    destruct (Hdone j H) as [q [Hq Hd]]. rewrite Hj in Hq. inversion Hq; subst q.
    rewrite Forall_forall in H2. destruct (H2 p (nth_error_In _ _ Hj)) as [->|[k [-> Hk]]]; [discriminate|].
    split; [reflexivity|exists k; split; [reflexivity|exact Hk]]. }
  split; [exact Hlen|]. split; [exact Hall|]. split; [exact H3|].
  rewrite <- Hlen. clear - Hall. induction Hall as [|p ps [_ [k [Hk _]]] _ IH]; [reflexivity|].
  cbn. rewrite Hk. cbn. f_equal. exact IH.
Qed.
