(* C36 - hand-written model of concurrent Session() constructors on one database (androguard/session.py).
   The shared state is the set of primary keys of table 'session'.  A process executes its program one
   database operation at a time; a schedule names the process that runs its next operation.  Each
   operation is one SQL statement and is atomic (SQLite serialises statements).
   Session.__init__ performs exactly one operation: insert(dict()) - the database assigns the key
   (SQLite INTEGER PRIMARY KEY: 1 + the largest key present).  The protocol the pinned tree had
   (count the rows, then insert that number as key) is kept as a second program: the model exhibits
   the failure the property is about.  Tied to the source by tools/props/c36.py. *)
From Coq Require Import ZArith List Bool.
Require Import V.Lib.Val V.Lib.Result.
Import ListNotations.
Open Scope Z_scope.

Inductive op :=
| InsertAuto            (* session_id = table.insert(dict()) *)
| Count                 (* session_id = len(table) *)
| InsertLocal.          (* table.insert(dict(id=session_id)) : IntegrityError if the key exists *)

Inductive status := Running | Done | Failed.
Record proc := { todo : list op; sid : option Z; st : status }.
Definition state := (list Z * list proc)%type.       (* keys of the table, processes *)

Definition memZ (x : Z) (l : list Z) : bool := existsb (Z.eqb x) l.
Definition next_id (tbl : list Z) : Z := 1 + fold_left Z.max tbl 0.

Definition exec (tbl : list Z) (p : proc) : list Z * proc :=
  match st p, todo p with
  | Running, o :: rest =>
      let fin := match rest with [] => Done | _ => Running end in
      match o with
      | InsertAuto => let k := next_id tbl in (k :: tbl, {| todo := rest; sid := Some k; st := fin |})
      | Count => (tbl, {| todo := rest; sid := Some (Z.of_nat (length tbl)); st := fin |})
      | InsertLocal =>
          match sid p with
          | Some k => if memZ k tbl then (tbl, {| todo := rest; sid := sid p; st := Failed |})
                      else (k :: tbl, {| todo := rest; sid := sid p; st := fin |})
          | None => (tbl, {| todo := rest; sid := None; st := Failed |})
          end
      end
  | _, _ => (tbl, p)
  end.

Fixpoint update {A} (l : list A) (i : nat) (f : A -> A) : list A :=
  match l, i with
  | [], _ => []
  | x :: t, O => f x :: t
  | x :: t, S j => x :: update t j f
  end.

(* process i performs its next operation (nothing happens if it has finished or does not exist) *)
Definition step (s : state) (i : nat) : state :=
  match nth_error (snd s) i with
  | Some p => let '(tbl', p') := exec (fst s) p in (tbl', update (snd s) i (fun _ => p'))
  | None => s
  end.

Definition init (prog : list op) (n : nat) : state :=
  ([], repeat {| todo := prog; sid := None; st := Running |} n).

(* the schedule, then every process runs to completion in index order *)
Definition drain (plen n : nat) : list nat := flat_map (fun i => repeat i plen) (seq 0 n).
Definition run (prog : list op) (n : nat) (sched : list nat) : state :=
  fold_left step (sched ++ drain (length prog) n) (init prog n).

Definition PROTOCOL := [InsertAuto].            (* Session.__init__ as it is *)
Definition OLD_PROTOCOL := [Count; InsertLocal]. (* the pinned tree *)

(* observation: per process (status, id), then the table keys in insertion order *)
Definition vstatus (x : status) : Z := match x with Running => 0 | Done => 1 | Failed => 2 end.
Definition obs_sessions (i : nat * list nat) : val :=
  let '(n, sched) := i in
  let s := run PROTOCOL n sched in
  VList [VList (map (fun p => VList [VZ (vstatus (st p)); vopt VZ (sid p)]) (snd s)); VList (map VZ (rev (fst s)))].
