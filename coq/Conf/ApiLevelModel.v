(* C39 - hand-written model of load_permissions / load_permission_mappings
   (androguard/core/api_specific_resources/__init__.py) and load_api_specific_resource_module
   (androguard/core/androconf.py).  The directory listing is a parameter: [levels] are the N for
   which a file permissions_N.json exists (canonical decimal names, so "the file for level a
   exists" is "a is in levels").  What is observed of a load is the level whose file is opened. *)
From Coq Require Import ZArith List Bool.
Require Import V.Lib.Val V.Lib.Result.
Import ListNotations.
Open Scope Z_scope.

Definition has (levels : list Z) (a : Z) : bool := existsb (Z.eqb a) levels.
(* max() / min() of a non-empty list; the head is the seed *)
Definition lmax (x : Z) (l : list Z) : Z := fold_left Z.max l x.
Definition lmin (x : Z) (l : list Z) : Z := fold_left Z.min l x.

(* load_permissions(apilevel): Ok None is the empty dict returned when no level is available,
   Ok (Some l) means permissions_l.json is opened.  The recursive calls become fuel. *)
Fixpoint load_perm (fuel : nat) (levels : list Z) (api : Z) : result (option Z) :=
  match fuel with
  | O => Err OutOfFuel
  | S f =>
      match levels with
      | [] => Ok None
      | x :: rest =>
          if has levels api then Ok (Some api)
          else if lmax x rest <? api then load_perm f levels (lmax x rest)
          else if api <? lmin x rest then load_perm f levels (lmin x rest)
          else match filter (fun y => y <? api) levels with
               | [] => Err ValueError                     (* max() of an empty sequence *)
               | y :: lows => load_perm f levels (lmax y lows)
               end
      end
  end.

(* load_permission_mappings(apilevel) *)
Definition load_map (mlevels : list Z) (api : Z) : result (option Z) :=
  if has mlevels api then Ok (Some api) else Ok None.

(* the api argument of load_api_specific_resource_module *)
Inductive apiarg := ANone | AInt (z : Z) | AStr (z : Z) | AEmptyStr.
Definition not_given (a : apiarg) : bool :=          (* "if api is None or api == ''" *)
  match a with ANone | AEmptyStr => true | _ => false end.
Definition arg_value (default : Z) (a : apiarg) : Z :=
  match a with AInt z | AStr z => z | _ => default end.

Definition load_module (loader : Z -> result (option Z)) (default : Z) (a : apiarg) : result (option Z) :=
  let api := if not_given a then default else arg_value default a in
  match loader api with
  | Ok None => loader default          (* ret == {} *)
  | r => r
  end.

(* ---- specification: the documented fallback rule ---- *)
Definition chosen (levels : list Z) (api l : Z) : Prop :=
  In l levels /\
  (In api levels -> l = api) /\
  (~ In api levels -> (exists x, In x levels /\ x < api) ->
     l < api /\ forall x, In x levels -> x < api -> x <= l) /\
  (~ In api levels -> (forall x, In x levels -> api < x) -> forall x, In x levels -> l <= x).

(* ---- observation for the correspondence check ----
   kind 0: load_permissions(api)            2: module('api_permission_mappings', api)
   kind 1: module('aosp_permissions', api)  3: load_permission_mappings(api)
   kinds 4, 6, 5: as 0, 1, 2 on the directories shipped in the working tree
   the argument is (tag, value): 0 None, 1 int, 2 str, 3 '' *)
Definition mkarg (tag v : Z) : apiarg :=
  if tag =? 0 then ANone else if tag =? 1 then AInt v else if tag =? 2 then AStr v else AEmptyStr.
Definition vlevel (r : result (option Z)) : val := vres (vopt VZ) r.
Definition FUEL : nat := 4.
Definition obs_api (c : Z * list Z * list Z * Z * Z * Z) : val :=
  let '(kind, levels, mlevels, default, tag, v) := c in
  let a := mkarg tag v in
  if (kind =? 0) || (kind =? 4) then
    match a with
    | AInt z | AStr z => vlevel (load_perm FUEL levels z)
    | ANone => VErr E_TypeError | AEmptyStr => VErr E_ValueError    (* int(None), int('') *)
    end
  else if (kind =? 1) || (kind =? 6) then vlevel (load_module (load_perm FUEL levels) default a)
  else if (kind =? 2) || (kind =? 5) then vlevel (load_module (load_map mlevels) default a)
  else match a with
       | AInt z | AStr z => vlevel (load_map mlevels z)
       | _ => vlevel (Ok None)
       end.
