(* C39 - proofs about the API-level fallback model. *)
From Coq Require Import ZArith List Bool Lia.
Require Import V.Lib.Val V.Lib.Result V.Conf.ApiLevelModel.
Import ListNotations.
Open Scope Z_scope.

Lemma has_In levels a : has levels a = true <-> In a levels.
Proof.
  unfold has. rewrite existsb_exists. split.
  - intros (x & Hx & E). apply Z.eqb_eq in E. subst. exact Hx.
  - intros H. exists a. split; [exact H | apply Z.eqb_refl].
Qed.
Lemma has_nIn levels a : has levels a = false <-> ~ In a levels.
Proof. rewrite <- has_In. destruct (has levels a); split; intros; try discriminate; try reflexivity; congruence. Qed.

Lemma lmax_spec : forall l x, In (lmax x l) (x :: l) /\ forall y, In y (x :: l) -> y <= lmax x l.
Proof.
  induction l as [|a l IH]; intros x; unfold lmax in *; cbn [fold_left].
  - split; [left; reflexivity | intros y [<-|[]]; lia].
  - destruct (IH (Z.max x a)) as [I B]. split.
    + destruct I as [I|I]; [|right; right; exact I].
      rewrite <- I. destruct (Z.max_spec x a) as [[_ ->]|[_ ->]]; [right; left | left]; reflexivity.
    + intros y [E|[E|Hy]].
      * specialize (B (Z.max x a) (or_introl eq_refl)). lia.
      * specialize (B (Z.max x a) (or_introl eq_refl)). lia.
      * apply B. right. exact Hy.
Qed.
Lemma lmin_spec : forall l x, In (lmin x l) (x :: l) /\ forall y, In y (x :: l) -> lmin x l <= y.
Proof.
  induction l as [|a l IH]; intros x; unfold lmin in *; cbn [fold_left].
  - split; [left; reflexivity | intros y [<-|[]]; lia].
  - destruct (IH (Z.min x a)) as [I B]. split.
    + destruct I as [I|I]; [|right; right; exact I].
      rewrite <- I. destruct (Z.min_spec x a) as [[_ ->]|[_ ->]]; [left | right; left]; reflexivity.
    + intros y [E|[E|Hy]].
      * specialize (B (Z.min x a) (or_introl eq_refl)). lia.
      * specialize (B (Z.min x a) (or_introl eq_refl)). lia.
      * apply B. right. exact Hy.
Qed.

Lemma load_perm_S f x rest api : load_perm (S f) (x :: rest) api =
  if has (x :: rest) api then Ok (Some api)
  else if lmax x rest <? api then load_perm f (x :: rest) (lmax x rest)
  else if api <? lmin x rest then load_perm f (x :: rest) (lmin x rest)
  else match filter (fun y => y <? api) (x :: rest) with
       | [] => Err ValueError
       | y :: lows => load_perm f (x :: rest) (lmax y lows)
       end.
Proof. reflexivity. Qed.

Lemma load_hit f levels a : In a levels -> load_perm (S f) levels a = Ok (Some a).
Proof.
  intros H. destruct levels as [|x rest]; [destruct H|]. rewrite load_perm_S.
  apply has_In in H. rewrite H. reflexivity.
Qed.

Theorem load_perm_spec f levels api : levels <> [] ->
  exists l, load_perm (S (S f)) levels api = Ok (Some l) /\ chosen levels api l.
Proof.
  intros Hne. destruct levels as [|x rest]; [congruence|]. rewrite load_perm_S.
  remember (x :: rest) as levels eqn:Elev.
  destruct (lmax_spec rest x) as [MI MB]. destruct (lmin_spec rest x) as [mI mB].
  rewrite <- Elev in MI, MB, mI, mB.
  destruct (has levels api) eqn:Hh.
  - apply has_In in Hh. exists api. split; [reflexivity|].
    split; [exact Hh|]. split; [reflexivity|]. split; intros Hn; contradiction.
  - apply has_nIn in Hh. destruct (Z.ltb_spec (lmax x rest) api) as [HM|HM].
    + exists (lmax x rest). split; [apply load_hit; exact MI|].
      split; [exact MI|]. split; [intros Hin; contradiction|]. split.
      * intros _ _. split; [exact HM|]. intros z Hz _. apply MB. exact Hz.
      * intros _ Hall z Hz. specialize (Hall _ MI). lia.
    + destruct (Z.ltb_spec api (lmin x rest)) as [Hm|Hm].
      * exists (lmin x rest). split; [apply load_hit; exact mI|].
        split; [exact mI|]. split; [intros Hin; contradiction|]. split.
        -- intros _ (z & Hz & Hlt). specialize (mB _ Hz). lia.
        -- intros _ _ z Hz. apply mB. exact Hz.
      * assert (Hlow : In (lmin x rest) (filter (fun y => y <? api) levels)).
        { apply filter_In. split; [exact mI|]. apply Z.ltb_lt.
          assert (lmin x rest <> api) by (intros E; apply Hh; rewrite <- E; exact mI). lia. }
        destruct (filter (fun y => y <? api) levels) as [|y lows] eqn:Ef; [destruct Hlow|].
        destruct (lmax_spec lows y) as [LI LB]. rewrite <- Ef in LI, LB.
        apply filter_In in LI. destruct LI as [LI Llt]. apply Z.ltb_lt in Llt.
        exists (lmax y lows). split; [apply load_hit; exact LI|].
        split; [exact LI|]. split; [intros Hin; contradiction|]. split.
        -- intros _ _. split; [exact Llt|]. intros z Hz Hzlt. apply LB. apply filter_In.
           split; [exact Hz | apply Z.ltb_lt; exact Hzlt].
        -- intros _ Hall z Hz. specialize (Hall _ LI). lia.
Qed.

Lemma load_perm_empty f api : load_perm (S f) [] api = Ok None.
Proof. reflexivity. Qed.

(* the level chosen is unique, so "chosen" pins the result *)
Lemma chosen_unique levels api l1 l2 : chosen levels api l1 -> chosen levels api l2 -> l1 = l2.
Proof.
  intros (I1 & A1 & B1 & C1) (I2 & A2 & B2 & C2).
  destruct (in_dec Z.eq_dec api levels) as [Hin|Hn]; [rewrite (A1 Hin), (A2 Hin); reflexivity|].
  destruct (Z_lt_dec l1 api) as [H1|H1].
  - assert (E : exists x, In x levels /\ x < api) by (exists l1; auto).
    destruct (B1 Hn E) as [_ U1]. destruct (B2 Hn E) as [L2 U2].
    specialize (U1 _ I2 L2). specialize (U2 _ I1 H1). lia.
  - destruct (Z_lt_dec l2 api) as [H2|H2].
    + assert (E : exists x, In x levels /\ x < api) by (exists l2; auto).
      destruct (B1 Hn E) as [L1 _]. lia.
    + assert (Hall : forall x, In x levels -> api < x).
      { intros x Hx. destruct (Z_lt_dec x api) as [Hlt|Hge].
        - assert (E : exists x, In x levels /\ x < api) by (exists x; auto). destruct (B1 Hn E). lia.
        - assert (x <> api) by (intros ->; contradiction). lia. }
      specialize (C1 Hn Hall _ I2). specialize (C2 Hn Hall _ I1). lia.
Qed.

(* the module level: an explicit level (int or str, 0 included) is the level requested; None or ''
   mean the default *)
Theorem module_perm_spec f levels default a : levels <> [] ->
  exists l, load_module (load_perm (S (S f)) levels) default a = Ok (Some l) /\
            chosen levels (if not_given a then default else arg_value default a) l.
Proof.
  intros Hne. unfold load_module.
  destruct (load_perm_spec f levels (if not_given a then default else arg_value default a) Hne) as (l & -> & Hc).
  exists l. split; [reflexivity | exact Hc].
Qed.

Theorem module_map_spec mlevels default a : In default mlevels ->
  let api := if not_given a then default else arg_value default a in
  load_module (load_map mlevels) default a = Ok (Some (if has mlevels api then api else default)).
Proof.
  intros Hd api. unfold load_module. fold api. unfold load_map.
  destruct (has mlevels api) eqn:E; [reflexivity|].
  apply has_In in Hd. rewrite Hd. reflexivity.
Qed.
