From Coq Require Import ZArith List Lia Bool ZifyBool.
Import ListNotations.
Open Scope Z_scope.
Ltac Zify.zify_post_hook ::= Z.to_euclidean_division_equations.

(* model of writeuleb128: remaining = value>>7; while remaining>0: emit (value&0x7f)|0x80; value=remaining; remaining>>=7 ; emit value&0x7f *)
Fixpoint wr (fuel:nat) (v:Z) : list Z :=
  match fuel with
  | O => [v mod 128]
  | S f => if (v / 128 >? 0) then (v mod 128 + 128) :: wr f (v / 128) else [v mod 128]
  end.
(* model of readuleb128 (the nested ifs), on a list, returning value and rest *)
Definition rd (bs:list Z) : option (Z * list Z) :=
  match bs with
  | b0 :: r0 => if b0 >? 127 then
     match r0 with
     | b1 :: r1 => let res := (b0 mod 128) + (b1 mod 128) * 128 in
        if b1 >? 127 then
          match r1 with
          | b2 :: r2 => let res := res + (b2 mod 128) * 16384 in
            if b2 >? 127 then
              match r2 with
              | b3 :: r3 => let res := res + (b3 mod 128) * 2097152 in
                if b3 >? 127 then
                  match r3 with
                  | b4 :: r4 => Some (res + b4 * 268435456, r4)
                  | [] => None end
                else Some (res, r3)
              | [] => None end
            else Some (res, r2)
          | [] => None end
        else Some (res, r1)
     | [] => None end
    else Some (b0, r0)
  | [] => None
  end.

Theorem write_read : forall v r, 0 <= v < 4294967296 -> rd (wr 5 v ++ r) = Some (v, r).
Proof.
  intros v r H. cbn [wr].
  destruct (v / 128 >? 0) eqn:E1; cbn [app rd].
  2:{ destruct (v mod 128 >? 127) eqn:E; [lia|]. f_equal. f_equal. lia. }
  destruct (v mod 128 + 128 >? 127) eqn:E1'; [|lia].
  destruct (v / 128 / 128 >? 0) eqn:E2; cbn [app rd].
  2:{ destruct (v / 128 mod 128 >? 127) eqn:E; [lia|]. f_equal. f_equal. lia. }
  destruct (v / 128 mod 128 + 128 >? 127) eqn:E2'; [|lia].
  destruct (v / 128 / 128 / 128 >? 0) eqn:E3; cbn [app rd].
  2:{ destruct (v / 128 / 128 mod 128 >? 127) eqn:E; [lia|]. f_equal. f_equal. lia. }
  destruct (v / 128 / 128 mod 128 + 128 >? 127) eqn:E3'; [|lia].
  destruct (v / 128 / 128 / 128 / 128 >? 0) eqn:E4; cbn [app rd].
  2:{ destruct (v / 128 / 128 / 128 mod 128 >? 127) eqn:E; [lia|]. f_equal. f_equal. lia. }
  destruct (v / 128 / 128 / 128 mod 128 + 128 >? 127) eqn:E4'; [|lia].
  destruct (v / 128 / 128 / 128 / 128 / 128 >? 0) eqn:E5; cbn [app rd].
  { lia. }
  f_equal. f_equal. lia.
Qed.
Print Assumptions write_read.
