From Coq Require Import List Arith Bool Lia Permutation.
Import ListNotations.

Lemma NoDup_app_intro (a b:list nat) : NoDup a -> NoDup b -> (forall x, In x a -> In x b -> False) -> NoDup (a ++ b).
Proof.
  induction a as [|h t IH]; intros Ha Hb Hd; simpl; [assumption|].
  inversion Ha; subst. constructor.
  - intro Hin. apply in_app_or in Hin as [Hin|Hin]; [contradiction| apply (Hd h); [left; reflexivity|assumption]].
  - apply IH; auto. intros x Hx. apply Hd. right. assumption.
Qed.

Section DFS.
Variable sucs : nat -> list nat.

Definition mem (x:nat) (l:list nat) : bool := if in_dec Nat.eq_dec x l then true else false.
Lemma mem_In x l : mem x l = true <-> In x l.
Proof. unfold mem. destruct (in_dec Nat.eq_dec x l); split; intros; auto; discriminate. Qed.
Lemma mem_nIn x l : mem x l = false <-> ~ In x l.
Proof. unfold mem. destruct (in_dec Nat.eq_dec x l); split; intros; auto; try discriminate; contradiction. Qed.

(* post_order of graph.py: visited set, finishing order *)
Definition st := (list nat * list nat)%type.
Fixpoint dfs (fuel:nat) (n:nat) (s:st) : option st :=
  match fuel with
  | O => None
  | S f =>
    let step (acc:option st) (c:nat) : option st :=
      match acc with
      | None => None
      | Some s' => if mem c (fst s') then Some s' else dfs f c s'
      end in
    match fold_left step (sucs n) (Some (n :: fst s, snd s)) with
    | None => None
    | Some (vis, ord) => Some (vis, ord ++ [n])
    end
  end.

Inductive reach : nat -> nat -> Prop :=
| reach_refl x : reach x x
| reach_step x y z : reach x y -> In z (sucs y) -> reach x z.
Lemma reach_trans x y z : reach x y -> reach y z -> reach x z.
Proof. intros Hxy Hyz. induction Hyz; eauto using reach. Qed.

(* "y is settled relative to x in order o": y finished strictly before x, or y reaches x *)
Definition before (o:list nat) (y x:nat) : Prop := exists a b, o = a ++ x :: b /\ In y a.

Definition good (o:list nat) : Prop :=
  forall a x b, o = a ++ x :: b -> forall y, In y (sucs x) -> In y a \/ reach y x.

Lemma fold_none l : fold_left (fun (acc:option st) (c:nat) => match acc with None => None | Some s' => if mem c (fst s') then Some s' else dfs 0 c s' end) l None = None.
Proof. induction l; simpl; auto. Qed.

(* main invariant of one completed call *)
Definition post (n:nat) (vis ord vis' ord':list nat) : Prop :=
  exists new, ord' = ord ++ new ++ [n] /\
    (forall x, In x vis' <-> In x vis \/ In x (new ++ [n])) /\
    (forall x, In x (new ++ [n]) -> ~ In x vis) /\
    NoDup (new ++ [n]) /\
    (forall x, In x (new ++ [n]) -> reach n x).


Definition step (f:nat) (acc:option st) (c:nat) : option st :=
  match acc with None => None | Some s' => if mem c (fst s') then Some s' else dfs f c s' end.
Lemma dfs_unfold f n s : dfs (S f) n s =
  match fold_left (step f) (sucs n) (Some (n :: fst s, snd s)) with
  | None => None | Some (vis, ord) => Some (vis, ord ++ [n]) end.
Proof. reflexivity. Qed.
Lemma fold_step_none f l : fold_left (step f) l None = None.
Proof. induction l; simpl; auto. Qed.

Lemma good_app_last o n :
  good o -> (forall y, In y (sucs n) -> In y o \/ reach y n) -> good (o ++ [n]).
Proof.
  intros Hg Hn a x b E y Hy.
  destruct b as [|b0 b'] using rev_ind.
  - (* x is the last element *)
    apply app_inj_tail in E as [-> ->]. auto.
  - clear IHb'. rewrite app_comm_cons, app_assoc in E. apply app_inj_tail in E as [E _].
    eapply Hg; eauto.
Qed.

(* invariant of the fold over the children of n *)
Definition inv (n:nat) (vis ord:list nat) (s:st) : Prop :=
  let '(v, o) := s in
  exists new, o = ord ++ new /\
    (forall x, In x v <-> In x (n :: vis) \/ In x new) /\
    (forall x, In x new -> ~ In x (n :: vis)) /\
    NoDup new /\ (forall x, In x new -> reach n x) /\ good o.

Lemma dfs_post : forall fuel n vis ord vis' ord',
  dfs fuel n (vis, ord) = Some (vis', ord') ->
  ~ In n vis -> incl ord vis ->
  (forall g, In g vis -> ~ In g ord -> reach g n) ->
  good ord ->
  post n vis ord vis' ord' /\ good ord'.
Proof.
  induction fuel as [|f IH]; intros n vis ord vis' ord' Hd Hn Hinc Hgray Hgood; [discriminate|].
  rewrite dfs_unfold in Hd. cbn [fst snd] in Hd.
  assert (Hfold: forall l, incl l (sucs n) -> forall s0, inv n vis ord s0 ->
            forall s1, fold_left (step f) l (Some s0) = Some s1 ->
            inv n vis ord s1 /\ (forall c, In c l -> In c (fst s1)) /\ (forall x, In x (fst s0) -> In x (fst s1))).
  { induction l as [|c l IHl]; intros Hl [v o] Hinv s1 Hf; simpl in Hf.
    - inversion Hf; subst. split; [assumption|]. split; [intros ? []|auto].
    - assert (Hl': incl l (sucs n)) by (intros ? ?; apply Hl; right; assumption).
      destruct (mem c v) eqn:Hm.
      + destruct (IHl Hl' (v, o) Hinv s1 Hf) as (I1 & I2 & I3). split; [assumption|]. split; [|assumption].
        intros c' [<-|Hc']; [apply I3; cbn; apply mem_In; assumption | auto].
      + destruct (dfs f c (v, o)) as [[v2 o2]|] eqn:Hc; [|rewrite fold_step_none in Hf; discriminate].
        destruct Hinv as (new & Eo & Hv & Hdisj & Hnd & Hreach & Hgo).
        apply mem_nIn in Hm.
        assert (Hcn: reach n c) by (eapply reach_step; [apply reach_refl| apply Hl; left; reflexivity]).
        (* apply the induction hypothesis on fuel to the child *)
        destruct (IH c v o v2 o2 Hc Hm) as ((new2 & Eo2 & Hv2 & Hdisj2 & Hnd2 & Hreach2) & Hgo2).
        { subst o. intros x Hx. apply Hv. apply in_app_or in Hx as [Hx|Hx]; [left; right; apply Hinc; assumption | right; assumption]. }
        { intros g Hg Hng. apply Hv in Hg as [[<-|Hg]|Hg].
          - assumption.
          - eapply reach_trans; [apply Hgray; [assumption|]|exact Hcn]. intro; apply Hng; subst o; apply in_or_app; left; assumption.
          - exfalso; apply Hng; subst o; apply in_or_app; right; assumption. }
        { assumption. }
        assert (Hinv2: inv n vis ord (v2, o2)).
        { exists (new ++ new2 ++ [c]). repeat split.
          - subst o o2. rewrite <- app_assoc. reflexivity.
          - intros Hx. apply Hv2 in Hx as [Hx|Hx]; [apply Hv in Hx as [Hx|Hx]; [left; assumption | right; apply in_or_app; left; assumption] | right; apply in_or_app; right; assumption].
          - intros [Hx|Hx]; apply Hv2; [left; apply Hv; left; assumption|].
            apply in_app_or in Hx as [Hx|Hx]; [left; apply Hv; right; assumption | right; assumption].
          - intros x Hx Hx'. apply in_app_or in Hx as [Hx|Hx]; [eapply Hdisj; eauto|].
            apply (Hdisj2 x Hx). apply Hv. left. assumption.
          - apply NoDup_app_intro; [assumption|assumption|]. intros x Hx1 Hx2. apply (Hdisj2 x Hx2). apply Hv. right. assumption.
          - intros x Hx. apply in_app_or in Hx as [Hx|Hx]; [auto|]. eapply reach_trans; [exact Hcn|auto].
          - assumption. }
        destruct (IHl Hl' (v2, o2) Hinv2 s1 Hf) as (I1 & I2 & I3). split; [assumption|]. split.
        * intros c' [<-|Hc']; [|auto]. apply I3. cbn. apply Hv2. right. apply in_or_app. right. left. reflexivity.
        * intros x Hx. apply I3. cbn in *. apply Hv2. left. assumption. }
  destruct (fold_left (step f) (sucs n) (Some (n :: vis, ord))) as [[v o]|] eqn:Hf; [|discriminate].
  inversion Hd; subst vis' ord'. clear Hd.
  destruct (Hfold (sucs n) (incl_refl _) (n :: vis, ord)) with (s1 := (v, o)) as ((new & Eo & Hv & Hdisj & Hnd & Hreach & Hgo) & Hall & _); [|assumption|].
  { exists []. rewrite app_nil_r. repeat split; auto; try (intros [?|[]]; assumption); try (intros ? []). constructor. }
  cbn [fst] in Hall.
  assert (Hnn: ~ In n new) by (intro H; apply (Hdisj n H); left; reflexivity).
  split.
  - exists new. repeat split.
    + subst o. rewrite <- app_assoc. reflexivity.
    + intros Hx. apply Hv in Hx as [[<-|Hx]|Hx]; [right; apply in_or_app; right; left; reflexivity | left; assumption | right; apply in_or_app; left; assumption].
    + intros [Hx|Hx]; apply Hv; [left; right; assumption|]. apply in_app_or in Hx as [Hx|[<-|[]]]; [right; assumption | left; left; reflexivity].
    + intros x Hx Hx'. apply in_app_or in Hx as [Hx|[<-|[]]]; [apply (Hdisj x Hx); right; assumption | contradiction].
    + apply NoDup_app_intro; [assumption | constructor; [intros []|constructor] |]. intros x Hx [<-|[]]. contradiction.
    + intros x Hx. apply in_app_or in Hx as [Hx|[<-|[]]]; [auto | apply reach_refl].
  - apply good_app_last; [assumption|]. intros y Hy. specialize (Hall y Hy). apply Hv in Hall as [[<-|Hyv]|Hyn].
    + right. apply reach_refl.
    + destruct (in_dec Nat.eq_dec y ord) as [Hyo|Hyo]; [left; subst o; apply in_or_app; left; assumption | right; apply Hgray; assumption].
    + left. subst o. apply in_or_app. right. assumption.
Qed.

(* the finishing order of a whole run: entry is last (so its RPO number is 1 when every node is
   reachable), no node twice, only reachable nodes, and every edge x->y either has y finished
   before x (num x < num y) or closes a cycle (y reaches x) *)
Theorem post_order_ok fuel entry vis ord :
  dfs fuel entry ([], []) = Some (vis, ord) ->
  good ord /\ NoDup ord /\ (exists new, ord = new ++ [entry]) /\ (forall x, In x ord -> reach entry x).
Proof.
  intros H. destruct (dfs_post fuel entry [] [] vis ord H) as ((new & E & Hv & Hd & Hnd & Hr) & Hg); auto.
  - intros ? [].
  - intros ? [].
  - intros a x b E. destruct a; discriminate.
  - simpl in E. subst ord. repeat split; auto. exists new; reflexivity.
Qed.
End DFS.
Print Assumptions post_order_ok.
