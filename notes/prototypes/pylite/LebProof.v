From Coq Require Import ZArith List String Bool Lia ZifyBool.
Require Import PyLite Gen_Leb.
Import ListNotations.
Open Scope Z_scope. Open Scope string_scope.
Ltac Zify.zify_post_hook ::= Z.to_euclidean_division_equations.

Arguments Z.land : simpl never. Arguments Z.lor : simpl never. Arguments Z.shiftl : simpl never.
Arguments Z.shiftr : simpl never. Arguments Z.add : simpl never. Arguments Z.sub : simpl never.
Arguments Z.ltb : simpl never. Arguments Z.gtb : simpl never. Arguments Z.leb : simpl never.
Arguments Z.geb : simpl never. Arguments Z.eqb : simpl never. Arguments Z.max : simpl never.

Definition write_u (v:Z) : result (list Z) :=
  match run src_writeuleb128 [("value", VInt v)] with Ok (VBytes b, _) => Ok b | Ok _ => Err TypeError | Err e => Err e end.
Definition read_u (bs:list Z) : result (Z * list Z) :=
  match run src_readuleb128 [("buff", VBytes bs)] with
  | Ok (VInt z, r) => match lookup "buff" r with Ok (VBytes t) => Ok (z, t) | _ => Err TypeError end
  | Ok _ => Err TypeError | Err e => Err e end.

(* sanity: concrete evaluation through the interpreter *)
Eval vm_compute in (write_u 300, read_u [172; 2; 9], write_u 4294967295, write_u (-1), read_u [128;128;128;128;31]).

(* bit operations with constants -> arithmetic *)
Lemma land127 x : 0 <= x -> Z.land x 127 = x mod 128.
Proof. intros. change 127 with (Z.ones 7). rewrite Z.land_ones by lia. reflexivity. Qed.
Lemma shr7 x : Z.shiftr x 7 = x / 128.
Proof. rewrite Z.shiftr_div_pow2 by lia. reflexivity. Qed.
Lemma high_bits_zero a k n : 0 <= a < 2^k -> k <= n -> Z.testbit a n = false.
Proof.
  intros [Ha Hk] Hn. destruct (Z.eq_dec a 0) as [->|Hnz]; [apply Z.bits_0|].
  apply Z.bits_above_log2; [lia|]. assert (Z.log2 a < k) by (apply Z.log2_lt_pow2; lia). lia.
Qed.
Lemma lor_add a b k : 0 <= k -> 0 <= a < 2^k -> Z.lor a (Z.shiftl b k) = a + b * 2^k.
Proof.
  intros Hk Ha. rewrite <- Z.shiftl_mul_pow2 by lia.
  assert (H0: Z.land a (Z.shiftl b k) = 0).
  { apply Z.bits_inj'. intros n Hn. rewrite Z.land_spec, Z.bits_0. destruct (Z.ltb_spec n k).
    - rewrite Z.shiftl_spec_low by lia. apply andb_false_r.
    - rewrite (high_bits_zero a k n) by lia. reflexivity. }
  rewrite <- Z.lxor_lor by exact H0. symmetry. apply Z.add_nocarry_lxor. exact H0.
Qed.
