Require Import LebProof.
From Coq Require Import ZArith List String Bool Lia ZifyBool.
Require Import PyLite Gen_Leb.
Import ListNotations.
Open Scope Z_scope. Open Scope string_scope.
Ltac Zify.zify_post_hook ::= Z.to_euclidean_division_equations.
Arguments Z.land : simpl never. Arguments Z.lor : simpl never. Arguments Z.shiftl : simpl never.
Arguments Z.shiftr : simpl never. Arguments Z.add : simpl never. Arguments Z.sub : simpl never.
Arguments Z.ltb : simpl never. Arguments Z.gtb : simpl never. Arguments Z.leb : simpl never.
Arguments Z.geb : simpl never. Arguments Z.eqb : simpl never. Arguments Z.max : simpl never.
Arguments Z.mul : simpl never. Arguments Z.pow : simpl never. Arguments Z.div : simpl never. Arguments Z.modulo : simpl never.

Definition runf (fuel:nat) (body:list stmt) (r:env) : result (value * env) :=
  do '(o, r) <- exec fuel body r; match o with Returned v => Ok (v, r) | _ => Ok (VNone, r) end.
Definition write_uf f (v:Z) : result (list Z) :=
  match runf f src_writeuleb128 [("value", VInt v)] with Ok (VBytes b, _) => Ok b | Ok _ => Err TypeError | Err e => Err e end.

Lemma byte_hi v : 0 <= v -> Z.lor (Z.land v 127) 128 = v mod 128 + 128.
Proof. intros. rewrite land127 by lia. change (Z.lor (v mod 128) 128) with (Z.lor (v mod 128) (Z.shiftl 1 7)).
  rewrite lor_add; lia. Qed.

Ltac head_if t := lazymatch t with
  | context[if ?c then _ else _] => lazymatch c with context[if _ then _ else _] => head_if c | _ => c end end.
Ltac step := match goal with |- ?G => let c := head_if G in destruct c eqn:? end; rewrite ?byte_hi, ?land127 in * by lia; try (exfalso; lia); cbn; rewrite ?shr7.

Theorem write_u_closed_form : forall v, 0 <= v < 4294967296 ->
  write_uf 30 v = Ok (
    if v / 128 >? 0 then (v mod 128 + 128) ::
      (if v/128/128 >? 0 then (v/128 mod 128 + 128) ::
        (if v/128/128/128 >? 0 then (v/128/128 mod 128 + 128) ::
          (if v/128/128/128/128 >? 0 then [v/128/128/128 mod 128 + 128; v/128/128/128/128 mod 128]
           else [v/128/128/128 mod 128])
         else [v/128/128 mod 128])
       else [v/128 mod 128])
    else [v mod 128]).
Proof.
  intros v H. unfold write_uf, runf, src_writeuleb128. cbn. rewrite ?shr7.
  Time (repeat step).
  all: rewrite ?byte_hi, ?land127 by lia; try reflexivity.
Qed.
Print Assumptions write_u_closed_form.
