From Coq Require Import List Arith Bool Lia.
Import ListNotations.

Definition get (l:list nat) (i:nat) := nth i l 0.
Fixpoint set (l:list nat) (i:nat) (x:nat) : list nat :=
  match l, i with
  | [], _ => []
  | _ :: t, O => x :: t
  | h :: t, S j => h :: set t j x
  end.
Definition getl (l:list (list nat)) (i:nat) := nth i l [].
Fixpoint setl (l:list (list nat)) (i:nat) (x:list nat) :=
  match l, i with
  | [], _ => []
  | _ :: t, O => x :: t
  | h :: t, S j => h :: setl t j x
  end.
Definition addset (x:nat) (s:list nat) := if existsb (Nat.eqb x) s then s else s ++ [x].

Record st := { semi: list nat; vertex: list nat; label: list nat; anc: list nat;
               parent: list nat; dom: list nat; pred: list (list nat); bucket: list (list nat) }.

Definition graph := nat -> list nat.   (* all_sucs *)

Fixpoint dfs (fuel:nat) (g:graph) (v:nat) (s:st) (n:nat) : st * nat :=
  match fuel with
  | O => (s, n)
  | S f =>
    let n1 := S n in
    let s := {| semi := set (semi s) v n1; vertex := set (vertex s) n1 v; label := set (label s) v v;
                anc := set (anc s) v 0; parent := parent s; dom := dom s; pred := pred s; bucket := bucket s |} in
    fold_left (fun (a: st*nat) w =>
       let '(s, n) := a in
       let '(s, n) := if get (semi s) w =? 0
                      then dfs f g w {| semi := semi s; vertex := vertex s; label := label s; anc := anc s;
                                        parent := set (parent s) w v; dom := dom s; pred := pred s; bucket := bucket s |} n
                      else (s, n) in
       ({| semi := semi s; vertex := vertex s; label := label s; anc := anc s; parent := parent s; dom := dom s;
           pred := setl (pred s) w (addset v (getl (pred s) w)); bucket := bucket s |}, n))
      (g v) (s, n1)
  end.

Definition set_label s v x := {| semi := semi s; vertex := vertex s; label := set (label s) v x; anc := anc s;
   parent := parent s; dom := dom s; pred := pred s; bucket := bucket s |}.
Definition set_anc s v x := {| semi := semi s; vertex := vertex s; label := label s; anc := set (anc s) v x;
   parent := parent s; dom := dom s; pred := pred s; bucket := bucket s |}.
Definition set_semi s v x := {| semi := set (semi s) v x; vertex := vertex s; label := label s; anc := anc s;
   parent := parent s; dom := dom s; pred := pred s; bucket := bucket s |}.
Definition set_dom s v x := {| semi := semi s; vertex := vertex s; label := label s; anc := anc s;
   parent := parent s; dom := set (dom s) v x; pred := pred s; bucket := bucket s |}.
Definition set_bucket s v x := {| semi := semi s; vertex := vertex s; label := label s; anc := anc s;
   parent := parent s; dom := dom s; pred := pred s; bucket := setl (bucket s) v x |}.

Fixpoint compress (fuel:nat) (s:st) (v:nat) : st :=
  match fuel with
  | O => s
  | S f =>
    let u := get (anc s) v in
    if get (anc s) u =? 0 then s else
      let s := compress f s u in
      let s := if get (semi s) (get (label s) u) <? get (semi s) (get (label s) v)
               then set_label s v (get (label s) u) else s in
      set_anc s v (get (anc s) u)
  end.
Definition eval (N:nat) (s:st) (v:nat) : st * nat :=
  if get (anc s) v =? 0 then (s, v) else let s := compress N s v in (s, get (label s) v).

Definition dom_lt (N:nat) (g:graph) (entry:nat) : list nat :=
  let z := repeat 0 (S N) in let zl := repeat [] (S N) in
  let s0 := {| semi := z; vertex := z; label := z; anc := z; parent := z; dom := z; pred := zl; bucket := zl |} in
  let '(s, n) := dfs (S N) g entry s0 0 in
  let s := fold_left (fun s i =>
      let w := get (vertex s) i in
      let '(s, y) := fold_left (fun (a:st*nat) v => let '(s, _) := a in
                        let '(s, u) := eval N s v in
                        let y := Nat.min (get (semi s) w) (get (semi s) u) in
                        (set_semi s w y, y)) (getl (pred s) w) (s, 0) in
      let s := set_bucket s (get (vertex s) y) (addset w (getl (bucket s) (get (vertex s) y))) in
      let pw := get (parent s) w in
      let s := set_anc s w pw in
      let s := fold_left (fun s v => let '(s, u) := eval N s v in
                 set_dom s v (if get (semi s) u <? get (semi s) v then u else pw)) (getl (bucket s) pw) s in
      set_bucket s pw []) (rev (seq 2 (n - 1))) s in
  let s := fold_left (fun s i =>
      let w := get (vertex s) i in let dw := get (dom s) w in
      if dw =? get (vertex s) (get (semi s) w) then s else set_dom s w (get (dom s) dw)) (seq 2 (n - 1)) s in
  set (dom s) entry 0.

(* ---------- specification by definition ---------- *)
Fixpoint reach (fuel:nat) (g:graph) (avoid:nat) (todo seen:list nat) : list nat :=
  match fuel with
  | O => seen
  | S f => match todo with
           | [] => seen
           | x :: t => if (x =? avoid) || existsb (Nat.eqb x) seen then reach f g avoid t seen
                       else reach f g avoid (g x ++ t) (x :: seen)
           end
  end.
Definition reachable N g avoid entry := reach (S N * S N + N) g avoid [entry] [].
Definition mem x l := existsb (Nat.eqb x) l.
(* strict dominators of v: d<>v reachable such that v unreachable when d removed *)
Definition sdom N g entry v : list nat :=
  filter (fun d => negb (d =? v) && negb (mem v (reachable N g d entry))) (reachable N g 0 entry).
Definition idom_spec N g entry v : nat :=
  if (v =? entry) || negb (mem v (reachable N g 0 entry)) then 0 else
  let sd := sdom N g entry v in
  match filter (fun d => forallb (fun d' => (d' =? d) || mem d' (sdom N g entry d)) sd) sd with
  | d :: _ => d | [] => 0 end.

(* ---------- exhaustive check over edge bit-vectors ---------- *)
Definition graph_ofb (N:nat) (bs:list bool) : graph := fun u =>
  if (u =? 0) || (N <? u) then [] else filter (fun v => nth ((u-1)*N + (v-1)) bs false) (seq 1 N).
Definition agreeb N bs := let g := graph_ofb N bs in
  forallb (fun v => get (dom_lt N g 1) v =? idom_spec N g 1 v) (seq 1 N).
Fixpoint enum (N k:nat) (bs:list bool) : bool :=
  match k with O => agreeb N bs | S k' => enum N k' (true :: bs) && enum N k' (false :: bs) end.
Time Eval vm_compute in (enum 3 9 []).
Time Eval vm_compute in (enum 4 16 []).
