From Coq Require Import ZArith List Bool Lia.
Import ListNotations.
Open Scope Z_scope.

(* ---- writer.string (shallow transcription for the prototype; BMP path) ---- *)
Definition hexd (n:Z) : Z := if n <? 10 then 48 + n else 87 + n.
Definition tok (c:Z) : list Z :=
  if (32 <=? c) && (c <? 127) then
    if (c =? 39) || (c =? 34) || (c =? 92) then [92; c] else [c]
  else if c =? 13 then [92; 114] else if c =? 10 then [92; 110] else if c =? 9 then [92; 116]
  else [92; 117; hexd (Z.shiftr c 12); hexd (Z.land (Z.shiftr c 8) 15); hexd (Z.land (Z.shiftr c 4) 15); hexd (Z.land c 15)].
Definition jstring (s:list Z) : list Z := 34 :: flat_map tok s ++ [34].

(* ---- JLS 3.3: unicode escapes, as a character-at-a-time machine ---- *)
Definition hexval (c:Z) : option Z :=
  if (48 <=? c) && (c <=? 57) then Some (c - 48)
  else if (97 <=? c) && (c <=? 102) then Some (c - 87)
  else if (65 <=? c) && (c <=? 70) then Some (c - 55) else None.
Inductive ust := UNorm (even:bool) | UEsc | UU | UHex (k:nat) (acc:Z).
Definition ustep (st:ust) (c:Z) : option (list Z * ust) :=
  match st with
  | UNorm true => if c =? 92 then Some ([], UEsc) else Some ([c], UNorm true)
  | UNorm false => if c =? 92 then Some ([92], UNorm true) else Some ([c], UNorm true)
  | UEsc => if c =? 117 then Some ([], UU) else if c =? 92 then Some ([92;92], UNorm true) else Some ([92;c], UNorm true)
  | UU => if c =? 117 then Some ([], UU) else match hexval c with Some h => Some ([], UHex 3 h) | None => None end
  | UHex k acc => match hexval c with
                  | Some h => match k with S O => Some ([acc*16+h], UNorm true) | S k' => Some ([], UHex k' (acc*16+h)) | O => None end
                  | None => None end
  end.
Definition ufinal (st:ust) : option (list Z) := match st with UNorm _ => Some [] | UEsc => Some [92] | _ => None end.
Fixpoint ue (st:ust) (l:list Z) : option (list Z) :=
  match l with
  | [] => ufinal st
  | c :: r => match ustep st c with Some (o, st') => option_map (app o) (ue st' r) | None => None end
  end.

(* ---- JLS 3.10.5/3.10.6: a string literal ---- *)
Inductive lst := LStart | LBody | LEsc | LDone.
Definition lstep (st:lst) (c:Z) : option (list Z * lst) :=
  match st with
  | LStart => if c =? 34 then Some ([], LBody) else None
  | LBody => if c =? 34 then Some ([], LDone) else if c =? 92 then Some ([], LEsc)
             else if (c =? 10) || (c =? 13) then None else Some ([c], LBody)
  | LEsc => if c =? 98 then Some ([8], LBody) else if c =? 116 then Some ([9], LBody) else if c =? 110 then Some ([10], LBody)
            else if c =? 102 then Some ([12], LBody) else if c =? 114 then Some ([13], LBody) else if c =? 115 then Some ([32], LBody)
            else if (c =? 34) || (c =? 39) || (c =? 92) then Some ([c], LBody)
            else None   (* octal escapes: never produced by string(); modelled in the real development *)
  | LDone => None
  end.
Fixpoint lit (st:lst) (l:list Z) : option (list Z) :=
  match l with
  | [] => match st with LDone => Some [] | _ => None end
  | c :: r => match lstep st c with Some (o, st') => option_map (app o) (lit st' r) | None => None end
  end.
Definition java_lex (src:list Z) : option (list Z) := match ue (UNorm true) src with Some u => lit LStart u | None => None end.

Eval vm_compute in java_lex (jstring [104; 34; 92; 117; 48; 48; 52; 49; 10; 233; 0; 55357; 65535]).

(* ---- per-token lemmas ---- *)
Definition bmp c := 0 <= c < 65536.
Definition tok1 (c:Z) : list Z :=   (* image of tok c after phase 1 *)
  if (32 <=? c) && (c <? 127) then if (c =? 39) || (c =? 34) || (c =? 92) then [92; c] else [c]
  else if c =? 13 then [92; 114] else if c =? 10 then [92; 110] else if c =? 9 then [92; 116] else [c].

Definition r256 := map Z.of_nat (seq 0 256).
Definition all16 (P : Z -> bool) := forallb (fun h => forallb (fun l => P (h*256+l)) r256) r256.
Lemma in_r256 u : 0 <= u < 256 -> In u r256.
Proof. intros H. unfold r256. apply in_map_iff. exists (Z.to_nat u). split; [lia|]. apply in_seq. lia. Qed.
Lemma all16_spec P : all16 P = true -> forall u, 0 <= u < 65536 -> P u = true.
Proof. unfold all16. intros F u H. rewrite forallb_forall in F.
  assert (Hh: In (u / 256) r256) by (apply in_r256; split; [apply Z.div_pos; lia | apply Z.div_lt_upper_bound; lia]).
  specialize (F _ Hh). rewrite forallb_forall in F.
  assert (Hl: In (u mod 256) r256) by (apply in_r256; apply Z.mod_pos_bound; lia).
  specialize (F _ Hl). replace (u / 256 * 256 + u mod 256) with u in F; [exact F|].
  rewrite Z.mul_comm. apply Z.div_mod. lia. Qed.

(* phase 1 on one token followed by an arbitrary continuation k: checked for every BMP code point
   with a *symbolic* continuation by running the machine on the token only *)
Fixpoint ue_pre (st:ust) (l:list Z) : option (list Z * ust) :=   (* run over a prefix, return pending state *)
  match l with
  | [] => Some ([], st)
  | c :: r => match ustep st c with
              | Some (o, st') => match ue_pre st' r with Some (t, s) => Some (o ++ t, s) | None => None end
              | None => None end
  end.
Lemma ue_pre_app : forall l st out st' k, ue_pre st l = Some (out, st') ->
  ue st (l ++ k) = option_map (app out) (ue st' k).
Proof.
  induction l as [|c r IH]; intros st out st' k H; simpl in *.
  - inversion H; subst. destruct (ue st' k); reflexivity.
  - destruct (ustep st c) as [[o s1]|]; [|discriminate].
    destruct (ue_pre s1 r) as [[t s2]|] eqn:E; [|discriminate]. inversion H; subst.
    rewrite (IH _ _ _ k E). destruct (ue st' k); simpl; rewrite ?app_assoc; reflexivity.
Qed.
Lemma tok_phase1_all : all16 (fun c => match ue_pre (UNorm true) (tok c) with
                                        | Some (o, UNorm true) => if list_eq_dec Z.eq_dec o (tok1 c) then true else false
                                        | _ => false end) = true.
Proof. vm_compute. reflexivity. Qed.
Lemma tok_phase1 c k : bmp c -> ue (UNorm true) (tok c ++ k) = option_map (app (tok1 c)) (ue (UNorm true) k).
Proof.
  intros Hc. generalize (all16_spec _ tok_phase1_all c Hc). cbv beta.
  destruct (ue_pre (UNorm true) (tok c)) as [[o [[|]| | |]]|] eqn:E; try discriminate.
  destruct (list_eq_dec Z.eq_dec o (tok1 c)) as [->|]; [intros _|discriminate]. apply ue_pre_app. assumption.
Qed.

(* phase 2 on one phase-1 token *)
Fixpoint lit_pre (st:lst) (l:list Z) : option (list Z * lst) :=
  match l with
  | [] => Some ([], st)
  | c :: r => match lstep st c with
              | Some (o, st') => match lit_pre st' r with Some (t, s) => Some (o ++ t, s) | None => None end
              | None => None end
  end.
Lemma lit_pre_app : forall l st out st' k, lit_pre st l = Some (out, st') ->
  lit st (l ++ k) = option_map (app out) (lit st' k).
Proof.
  induction l as [|c r IH]; intros st out st' k H; simpl in *.
  - inversion H; subst. destruct (lit st' k); reflexivity.
  - destruct (lstep st c) as [[o s1]|]; [|discriminate].
    destruct (lit_pre s1 r) as [[t s2]|] eqn:E; [|discriminate]. inversion H; subst.
    rewrite (IH _ _ _ k E). destruct (lit st' k); simpl; rewrite ?app_assoc; reflexivity.
Qed.
Lemma tok_phase2_all : all16 (fun c => match lit_pre LBody (tok1 c) with
                                        | Some (o, LBody) => if list_eq_dec Z.eq_dec o [c] then true else false
                                        | _ => false end) = true.
Proof. vm_compute. reflexivity. Qed.
Lemma tok_phase2 c k : bmp c -> lit LBody (tok1 c ++ k) = option_map (cons c) (lit LBody k).
Proof.
  intros Hc. generalize (all16_spec _ tok_phase2_all c Hc). cbv beta.
  destruct (lit_pre LBody (tok1 c)) as [[o []]|] eqn:E; try discriminate.
  destruct (list_eq_dec Z.eq_dec o [c]) as [->|]; [intros _|discriminate]. rewrite (lit_pre_app _ _ _ _ k E). destruct (lit LBody k); reflexivity.
Qed.

(* ---- the theorem, for every string of BMP code points ---- *)
Lemma phase1_body s k : Forall bmp s ->
  ue (UNorm true) (flat_map tok s ++ k) = option_map (app (flat_map tok1 s)) (ue (UNorm true) k).
Proof.
  induction 1 as [|c s Hc Hs IH]; simpl.
  - destruct (ue (UNorm true) k); reflexivity.
  - rewrite <- app_assoc, tok_phase1 by assumption. rewrite IH. destruct (ue (UNorm true) k); simpl; [rewrite app_assoc|]; reflexivity.
Qed.
Lemma phase2_body s k : Forall bmp s -> lit LBody (flat_map tok1 s ++ k) = option_map (app s) (lit LBody k).
Proof.
  induction 1 as [|c s Hc Hs IH]; simpl.
  - destruct (lit LBody k); reflexivity.
  - rewrite <- app_assoc, tok_phase2 by assumption. rewrite IH. destruct (lit LBody k); reflexivity.
Qed.
Theorem jstring_denotes_bmp : forall s, Forall bmp s -> java_lex (jstring s) = Some s.
Proof.
  intros s Hs. unfold java_lex, jstring.
  change (34 :: flat_map tok s ++ [34]) with ([34] ++ (flat_map tok s ++ [34])).
  cbn [app ue ustep]. change (34 =? 92) with false. cbv iota. 
  rewrite phase1_body by assumption. cbn. rewrite phase2_body by assumption. cbn. rewrite app_nil_r. reflexivity.
Qed.
Print Assumptions jstring_denotes_bmp.
(* and the refutation for a supplementary character, with the code as it stands *)
Example jstring_refuted : java_lex (jstring [128512]) <> Some (55357 :: 56832 :: nil) /\ java_lex (jstring [128512]) <> Some [128512].
Proof. vm_compute. split; discriminate. Qed.
